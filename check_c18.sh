#!/bin/bash
# C18: world W2 (fault-injected voice files). quick = strict profile; thorough = strict + plain profiles.
set -u
cd "$(dirname "$0")"
ROOT=$(pwd)
tier=${1:-quick}; SEED=${2:-20261004}
export CARGO_NET_OFFLINE=true
export RUSTFLAGS="--cfg jbonsai_verif"
mkdir -p logs evidence/parts replays
"$ROOT/tools/clean_shm.sh" 2>/dev/null
( cd sim && cargo build --release --offline ) >logs/build.c18.log 2>&1 || { echo "HARNESS-ERROR build failed"; grep -E "^error" -A 6 logs/build.c18.log | head -40; exit 2; }
rc=0
sim/target/release/jbsim w2 --tier "$tier" --seed "$SEED" --profile strict --evidence "$ROOT/evidence/C18.json" \
    --replay-dir "$ROOT/replays" --known "$ROOT/known_findings.txt" 2>logs/C18.$tier.err
rc=$?
if [ "$tier" = thorough ] && [ $rc -ne 2 ]; then
  ( cd sim && cargo build --profile plain --offline ) >logs/build.c18p.log 2>&1 || { echo "HARNESS-ERROR plain-profile build failed"; exit 2; }
  sim/target/plain/jbsim w2 --tier thorough --doubles 600000 --seed "$SEED" --profile plain --evidence "$ROOT/evidence/parts/C18.plain.json" \
      --replay-dir "$ROOT/replays" --known "$ROOT/known_findings.txt" 2>logs/C18.$tier.plain.err
  rc2=$?
  python3 - "$ROOT" <<'PY'
import json,sys
root=sys.argv[1]
a=json.load(open(root+'/evidence/C18.json')); b=json.load(open(root+'/evidence/parts/C18.plain.json'))
a['coverage']['plain_profile_run']={k:b['coverage'][k] for k in ('evaluations','distinct_nontrivial','fault_kind_by_outcome','panic_classes','aborts_or_hangs','violations_reported','known_findings_hit','build_profile')}
a['coverage']['evaluations_strict_profile']=a['coverage']['evaluations']
a['violations']=a.get('violations',0)+b.get('violations',0)
a['wall_s']=round(a['wall_s']+b['wall_s'],3)
json.dump(a,open(root+'/evidence/C18.json','w'),indent=1)
PY
  [ $rc2 -gt $rc ] && rc=$rc2
  # a harness error beats a verdict
  [ $rc2 -eq 2 ] && rc=2
fi
exit $rc
