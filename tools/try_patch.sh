#!/bin/bash
# Apply a patch to /repo, run the given checks, undo the patch. For sensitivity experiments only.
#   tools/try_patch.sh <patch.diff> "<C02 C03 ...>" [quick|thorough]
set -u
patch=$1; props=$2; tier=${3:-quick}
cd /repo || exit 2
if [ -n "$(git status --porcelain --untracked-files=no)" ]; then echo "/repo is dirty; refusing"; exit 2; fi
git apply "$patch" || { echo "patch does not apply"; exit 2; }
trap 'git -C /repo checkout -- . ; git -C /repo clean -fdq src 2>/dev/null' EXIT
echo "--- baseline suite with patch (guard off):"
cargo test --lib --offline 2>&1 | grep -E "^test result|FAILED|failed" | head -5
for p in $props; do
  echo "--- ./check $p $tier"
  ( cd /verif && VERIF_REPLAY_KEEP=1 ./check $p $tier 2>&1 | grep -vE "^KNOWN-FINDING" | cut -c1-400 | tail -14 ); 
done
