#!/usr/bin/env python3
"""Check that a behaviour-preserving change raises no alarm: confirm it builds and keeps the 30/2 baseline
in a scratch worktree, then apply it to /repo, run all five quick checks, undo it. Files it under
/verif/benign/<id>/.   tools/eval_benign.py <deliver-dir> <A|B|C> <id>"""
import json, os, subprocess, sys, shutil, re, time
deliver, which, bid = sys.argv[1:4]
diff = os.path.join(deliver, f'{which}.diff')
wt = f'/tmp/evalwt-{bid}'
def sh(cmd, cwd=None, timeout=7200):
    p = subprocess.run(cmd, shell=True, cwd=cwd, stdout=subprocess.PIPE, stderr=subprocess.STDOUT, text=True, timeout=timeout)
    return p.returncode, p.stdout
ran = []
def note(cmd, rc, out, keep=6): ran.append({'cmd': cmd, 'exit': rc, 'tail': out.strip().splitlines()[-keep:]})
subprocess.run(f'git -C /repo worktree remove --force {wt}', shell=True, stderr=subprocess.DEVNULL, stdout=subprocess.DEVNULL)
rc, out = sh(f'git -C /repo worktree add -q --detach {wt} HEAD'); assert rc == 0, out
res = {'id': bid, 'source': f'{deliver} change {which}'}
try:
    rc, out = sh(f'git apply {diff}', cwd=wt); note('git apply', rc, out); assert rc == 0, 'diff does not apply'
    rcb, outb = sh('cargo build --offline 2>&1 | tail -3', cwd=wt); note('cargo build', rcb, outb)
    rct, outt = sh('cargo test --lib --offline 2>&1 | grep -E "^test result|FAILED"', cwd=wt); note('cargo test --lib', rct, outt)
    m = re.search(r'(\d+) passed; (\d+) failed', outt)
    res['suite_baseline_kept'] = bool(m) and m.group(1) == '30' and m.group(2) == '2' and 'multiple_models' in outt and 'bonsai_multi' in outt
    res['compiles'] = rcb == 0
finally:
    subprocess.run(f'git -C /repo worktree remove --force {wt}', shell=True)
alarms = []
if res.get('compiles') and res.get('suite_baseline_kept'):
    assert subprocess.run('git -C /repo status --porcelain --untracked-files=no', shell=True, capture_output=True, text=True).stdout.strip() == '', '/repo dirty'
    rc, out = sh(f'git -C /repo apply {diff}'); assert rc == 0
    try:
        for prop in ['C02', 'C18', 'C19', 'C20', 'C03']:
            t0 = time.time()
            rc, out = sh(f'./check {prop} quick', cwd='/verif')
            lines = [l for l in out.splitlines() if not l.startswith('KNOWN-FINDING')]
            note(f'./check {prop} quick (change applied)', rc, '\n'.join(lines), keep=8)
            viol = [l for l in lines if l.startswith('VIOLATION')]
            res[f'{prop}_exit'] = rc
            if rc != 0 or viol:
                alarms.append({'property': prop, 'exit': rc, 'lines': [l[:300] for l in lines if l.startswith(('VIOLATION', 'HARNESS', '  signature', '  detail'))][:8]})
    finally:
        subprocess.run('git -C /repo checkout -- . ; git -C /repo clean -fdq src', shell=True)
res['alarms'] = alarms
res['quiet'] = (len(alarms) == 0) if (res.get('compiles') and res.get('suite_baseline_kept')) else None
d = f'/verif/benign/{bid}'
os.makedirs(d, exist_ok=True)
shutil.copy(diff, f'{d}/patch.diff')
notes = os.path.join(deliver, 'NOTES.md')
if os.path.exists(notes): shutil.copy(notes, f'{d}/NOTES.from-author.md')
res['what_i_ran'] = ran
json.dump(res, open(f'{d}/meta.json', 'w'), indent=1)
print(json.dumps({k: res[k] for k in res if k != 'what_i_ran'}, indent=1))
