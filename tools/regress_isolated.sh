#!/bin/bash
# Run the seeded-change regression against a private copy of /repo and /verif, so that /repo and
# /verif stay free for other work.   tools/regress_isolated.sh [id-prefix ...]
# Result: /verif/seeded/REGRESSION.md (written by regress_seeded.py), log in /tmp/reg/log
set -u
R=/tmp/reg
rm -rf $R/verif; git -C /repo worktree remove --force $R/repo 2>/dev/null; mkdir -p $R
git -C /repo worktree add -q --detach $R/repo HEAD || exit 2
rsync -a --exclude sim/target --exclude logs --exclude replays --exclude evidence/parts --exclude .git /verif/ $R/verif/
sed -i "s#path = \"/repo\"#path = \"$R/repo\"#" $R/verif/sim/jbsim/Cargo.toml $R/verif/sim/jbsim-miri/Cargo.toml $R/verif/sim/static-assert/Cargo.toml
( cd $R/verif && ./setup.sh >/dev/null 2>&1 )
REG_REPO=$R/repo REG_VERIF=$R/verif python3 /verif/tools/regress_seeded.py "$@" > $R/log 2>&1
rc=$?
git -C /repo worktree remove --force $R/repo; rm -rf $R/verif
exit $rc
