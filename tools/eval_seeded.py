#!/usr/bin/env python3
"""Confirm a sub-agent's seeded change in a scratch worktree, run our checks against it, and file it
under /verif/seeded/<id>/.   tools/eval_seeded.py <deliver-dir> <A|B> <property> <id> [--tier quick|thorough]"""
import json, os, subprocess, sys, shutil, re, time
deliver, which, prop, sid = sys.argv[1:5]
tier = sys.argv[6] if len(sys.argv) > 6 and sys.argv[5] == '--tier' else 'quick'
diff = os.path.join(deliver, f'{which}.diff'); demo = os.path.join(deliver, f'demo_{which}.rs')
wt = f'/tmp/evalwt-{sid}'
def sh(cmd, cwd=None, timeout=3600):
    p = subprocess.run(cmd, shell=True, cwd=cwd, stdout=subprocess.PIPE, stderr=subprocess.STDOUT, text=True, timeout=timeout)
    return p.returncode, p.stdout
ran = []
def note(cmd, rc, out, keep=6):
    ran.append({'cmd': cmd, 'exit': rc, 'tail': out.strip().splitlines()[-keep:]})
subprocess.run(f'git -C /repo worktree remove --force {wt}', shell=True, stderr=subprocess.DEVNULL, stdout=subprocess.DEVNULL)
rc, out = sh(f'git -C /repo worktree add -q --detach {wt} HEAD'); assert rc == 0, out
res = {'id': sid, 'property': prop, 'source': f'{deliver} change {which}'}
try:
    os.makedirs(f'{wt}/examples', exist_ok=True)
    shutil.copy(demo, f'{wt}/examples/demo_seeded.rs')
    # demo on the unchanged tree
    rc0, out0 = sh('cargo run --offline -q --example demo_seeded', cwd=wt); note('unchanged: cargo run --example demo_seeded', rc0, out0)
    rc, out = sh(f'git apply {diff}', cwd=wt); note('git apply', rc, out)
    if rc != 0:
        # /repo moved since the author's checkout (hook lines added): rebase the patch with a 3-way apply
        rc, out = sh(f'git apply -3 {diff} && git reset -q', cwd=wt); note('git apply -3 (rebased onto current HEAD)', rc, out)
        assert rc == 0, 'diff does not apply'
        rc, out = sh('git diff -- src', cwd=wt)
        diff = f'/tmp/rebased-{sid}.diff'; open(diff, 'w').write(out)
    rcb, outb = sh('cargo build --offline 2>&1 | tail -3', cwd=wt); note('changed: cargo build', rcb, outb)
    rct, outt = sh('cargo test --lib --offline 2>&1 | grep -E "^test result|FAILED"', cwd=wt); note('changed: cargo test --lib', rct, outt)
    m = re.search(r'(\d+) passed; (\d+) failed', outt)
    suite_ok = bool(m) and m.group(1) == '30' and m.group(2) == '2' and 'multiple_models' in outt and 'bonsai_multi' in outt
    rc1, out1 = sh('cargo run --offline -q --example demo_seeded', cwd=wt); note('changed: cargo run --example demo_seeded', rc1, out1)
    res.update({'compiles': rcb == 0, 'suite_baseline_kept': suite_ok, 'demo_passes_unchanged': rc0 == 0, 'demo_fails_changed': rc1 != 0})
    res['confirmed'] = bool(rcb == 0 and suite_ok and rc0 == 0 and rc1 != 0)
finally:
    subprocess.run(f'git -C /repo worktree remove --force {wt}', shell=True)
# our checks against it (applied to /repo, undone straight afterwards)
caught = None
if res.get('confirmed'):
    assert subprocess.run('git -C /repo status --porcelain --untracked-files=no', shell=True, capture_output=True, text=True).stdout.strip() == '', '/repo dirty'
    rc, out = sh(f'git -C /repo apply {diff}'); assert rc == 0
    try:
        t0 = time.time()
        rc, out = sh(f'./check {prop} {tier}', cwd='/verif', timeout=7200)
        lines = [l for l in out.splitlines() if not l.startswith('KNOWN-FINDING')]
        note(f'/verif: ./check {prop} {tier} (change applied to /repo)', rc, '\n'.join(lines), keep=12)
        viol = [l for l in lines if l.startswith('VIOLATION')]
        caught = (rc == 1 and len(viol) > 0)
        res['check_exit'] = rc; res['check_tier'] = tier; res['check_wall_s'] = round(time.time() - t0, 1)
        res['violation_lines'] = viol[:4]
        sigs = [l.strip() for l in lines if l.strip().startswith('signature:')]
        res['signatures'] = sigs[:4]
    finally:
        subprocess.run('git -C /repo checkout -- . ; git -C /repo clean -fdq src', shell=True)
res['caught_by_check'] = caught
d = f'/verif/seeded/{sid}'
os.makedirs(d, exist_ok=True)
shutil.copy(diff, f'{d}/patch.diff'); shutil.copy(demo, f'{d}/demo.rs')
notes = os.path.join(deliver, 'NOTES.md')
if os.path.exists(notes): shutil.copy(notes, f'{d}/NOTES.from-author.md')
res['what_i_ran'] = ran
old = {}
if os.path.exists(f'{d}/meta.json'):
    old = json.load(open(f'{d}/meta.json'))
res['needs_to_manifest'] = old.get('needs_to_manifest', '')
res['breaks'] = old.get('breaks', '')
json.dump(res, open(f'{d}/meta.json', 'w'), indent=1)
print(json.dumps({k: res[k] for k in res if k not in ('what_i_ran',)}, indent=1))
