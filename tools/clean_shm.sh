#!/bin/bash
# remove scratch directories of jbsim invocations that are no longer running
for d in /dev/shm/jbsim-*; do
  [ -d "$d" ] || continue
  pid=${d##*/jbsim-}
  if [ ! -d "/proc/$pid" ]; then rm -rf "$d"; fi
done
for d in /dev/shm/jbdet.*; do [ -d "$d" ] && find "$d" -maxdepth 0 -mmin +120 -exec rm -rf {} \; ; done
exit 0
