#!/usr/bin/env python3
"""Apply every seeded change to /repo in turn, run the quick check of its property, undo it.
Writes seeded/REGRESSION.md.  tools/regress_seeded.py [id-prefix ...]"""
import json, os, subprocess, sys, time
REPO = os.environ.get('REG_REPO', '/repo')      # tree the changes are applied to
VERIF = os.environ.get('REG_VERIF', '/verif')   # checks that are run (a copy whose path dependency points at REG_REPO)
ids = sorted(os.listdir('/verif/seeded'))
ids = [i for i in ids if os.path.isdir(f'/verif/seeded/{i}') and (len(sys.argv) == 1 or any(i.startswith(p) for p in sys.argv[1:]))]
rows = []
def sh(cmd, cwd=None, timeout=7200):
    p = subprocess.run(cmd, shell=True, cwd=cwd, stdout=subprocess.PIPE, stderr=subprocess.STDOUT, text=True, timeout=timeout)
    return p.returncode, p.stdout
assert sh(f'git -C {REPO} status --porcelain --untracked-files=no')[1].strip() == '', 'repo dirty'
for sid in ids:
    meta = json.load(open(f'/verif/seeded/{sid}/meta.json'))
    prop = meta['property']
    rc, out = sh(f'git -C {REPO} apply /verif/seeded/{sid}/patch.diff')
    if rc != 0:
        rows.append((sid, prop, 'PATCH DOES NOT APPLY', '', 0)); continue
    t0 = time.time()
    try:
        if sid == 'C03-s8':
            rc, out = sh('./miri_layer.sh 2188 16 "D" 20261004', cwd=VERIF); how = 'thorough part: Miri scenario D'
        else:
            rc, out = sh(f'./check {prop} quick', cwd=VERIF); how = f'./check {prop} quick'
    finally:
        sh(f'git -C {REPO} checkout -- . ; git -C {REPO} clean -fdq src')
    lines = [l for l in out.splitlines() if not l.startswith('KNOWN-FINDING')]
    viol = [l for l in lines if l.startswith('VIOLATION')]
    sigs = sorted({l.strip()[len('signature: '):].split(' (')[0][:90] for l in lines if l.strip().startswith('signature:')})
    verdict = 'caught' if (rc == 1 and viol) else ('HARNESS-ERROR' if rc == 2 else 'not caught')
    rows.append((sid, prop, verdict, '; '.join(sigs[:3]), round(time.time() - t0)))
    print(rows[-1], flush=True)
# a partial run (id prefixes given) replaces only its own rows in the existing table
if len(sys.argv) > 1 and os.path.exists('/verif/seeded/REGRESSION.md'):
    mine = {r[0] for r in rows}
    for line in open('/verif/seeded/REGRESSION.md'):
        c = [x.strip() for x in line.strip().strip('|').split(' | ')]
        if len(c) == 5 and c[0] not in ('id', '---') and c[0] not in mine and not c[0].startswith('-'):
            try:
                rows.append((c[0], c[1], c[2], c[3], int(c[4])))
            except ValueError:
                pass
    rows.sort(key=lambda r: r[0])
with open('/verif/seeded/REGRESSION.md', 'w') as f:
    f.write('# Seeded changes vs. the current checks\n\nEach change applied to /repo, the quick check of its property run (C03-s8: the Miri scenario-D part of the thorough tier), change undone.\n\n| id | property | verdict | signatures | wall s |\n|---|---|---|---|---|\n')
    for r in rows:
        f.write('| ' + ' | '.join(str(x) for x in r) + ' |\n')
    n = len(rows); c = sum(1 for r in rows if r[2] == 'caught')
    f.write(f'\n{c} of {n} caught.\n')
print(f'{sum(1 for r in rows if r[2]=="caught")} of {len(rows)} caught')
