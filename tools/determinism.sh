#!/bin/bash
# Determinism protocol (DESIGN.md section 6): many VERIF_SEED values, each run twice in different
# processes at different worker counts; per-run (trace hash, observation digest) lists must be identical.
#   tools/determinism.sh [nseeds] [runs-per-batch]
set -u
cd "$(dirname "$0")/.."
J=sim/target/release/jbsim
# always rebuild from /repo's current tree: a binary left over from a run against a patched tree would be judged otherwise
( cd sim && RUSTFLAGS="--cfg jbonsai_verif" CARGO_NET_OFFLINE=true cargo build --release --offline --features threads ) >/dev/null 2>&1 || { echo "build failed"; exit 2; }
N=${1:-24}; RUNS=${2:-400}
tmp=$(mktemp -d /dev/shm/jbdet.XXXX)
bad=0; pairs=0
for prop in C02 C03 C19 C20; do
  for k in $(seq 1 $N); do
    seed=$((1000003 * k + 17))
    w1=$(( (k % 3 == 0) ? 1 : ((k % 3 == 1) ? 4 : 16) ))
    w2=$(( (k % 3 == 0) ? 16 : ((k % 3 == 1) ? 1 : 4) ))
    $J w1 $prop --tier quick --seed $seed --runs $RUNS --workers $w1 --determinism 0 --evidence $tmp/e1.json --replay-dir $tmp/rp --dump-digests $tmp/a.txt >/dev/null 2>&1
    $J w1 $prop --tier quick --seed $seed --runs $RUNS --workers $w2 --determinism 0 --evidence $tmp/e2.json --replay-dir $tmp/rp --dump-digests $tmp/b.txt >/dev/null 2>&1
    n=$(wc -l < $tmp/a.txt); pairs=$((pairs+n))
    if ! cmp -s $tmp/a.txt $tmp/b.txt; then bad=$((bad+1)); echo "MISMATCH $prop seed=$seed workers $w1 vs $w2"; diff $tmp/a.txt $tmp/b.txt | head -3; fi
  done
  echo "$prop: $N seeds x 2 processes compared"
done
# W2: same seed twice with different worker counts, per-case verdicts compared by the built-in pass
for k in 1 2 3; do
  seed=$((7919 * k + 3))
  $J w2 --tier quick --seed $seed --doubles 20000 --workers $((k*5)) --determinism 20000 --evidence $tmp/e18.json --replay-dir $tmp/rp --known known_findings.txt > $tmp/w2.out 2>/dev/null
  grep -q "determinism" $tmp/w2.out && { bad=$((bad+1)); echo "MISMATCH W2 seed=$seed"; }
  python3 -c "import json;c=json.load(open('$tmp/e18.json'))['coverage'];print('W2 seed',$seed,'pairs',c['determinism_pairs_checked'],'mismatches',c['determinism_mismatches'])"
done
rm -rf $tmp
echo "determinism: $pairs run pairs compared, $bad mismatching batches"
[ $bad -eq 0 ]
