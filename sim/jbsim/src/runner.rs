//! W1/L1 batch driver: seeded runs sharded over worker threads, replay files, ddmin minimisation.

use std::collections::{BTreeMap, BTreeSet};
use std::path::{Path, PathBuf};
use std::time::Instant;

use crate::env::Env;
use crate::gen::{self, Gen, Pools};
use crate::json::J;
use crate::ops::TOp;
use crate::rng::{mix, Rng};
use crate::sim::{HarnessError, Prop, Sim, Stats, Stop, Violation};

pub struct RunResult {
    pub ops: Vec<TOp>,
    pub violation: Option<Violation>,
    pub harness: Option<String>,
    pub stats: Stats,
    pub trace_hash: u64,
    pub digest: u64,
    pub nontrivial: bool,
    pub swarm: String,
}

fn finish_run(mut sim: Sim, ops: Vec<TOp>, stop: Option<Stop>, swarm: String) -> RunResult {
    let mut violation = None;
    let mut harness = None;
    match stop {
        Some(Stop::Violation(v)) => violation = Some(v),
        Some(Stop::Harness(HarnessError(e))) => harness = Some(e),
        None => match sim.finish() {
            Err(Stop::Violation(v)) => violation = Some(v),
            Err(Stop::Harness(HarnessError(e))) => harness = Some(e),
            Ok(()) => {}
        },
    }
    RunResult { ops, violation, harness, stats: sim.stats.clone(), trace_hash: sim.trace_hash, digest: sim.digest, nontrivial: sim.nontrivial, swarm }
}

/// Execute an explicit history.
pub fn run_ops(prop: Prop, ops: &[TOp], env: &mut Env) -> RunResult {
    let mut sim = Sim::new(prop, env);
    let mut stop = None;
    let mut done = Vec::new();
    for op in ops {
        done.push(op.clone());
        if let Err(s) = sim.exec(op) {
            stop = Some(s);
            break;
        }
    }
    finish_run(sim, done, stop, "replay".into())
}

pub struct SysPrefix {
    pub hist: Vec<(usize, Vec<u8>)>,
    pub variants: usize,
}

impl SysPrefix {
    pub fn len(&self) -> usize {
        self.hist.len() * self.variants
    }
}

/// Run number `i` of a batch: the systematic prefix first, then seeded histories.
pub fn run_index(prop: Prop, verif_seed: u64, i: u64, pools: &Pools, sys: &SysPrefix, env: &mut Env) -> RunResult {
    if prop == Prop::C02 && (i as usize) < sys.len() {
        let k = i as usize;
        let (n, h) = &sys.hist[k % sys.hist.len()];
        let ops = gen::systematic_c02_ops(*n, h, k / sys.hist.len());
        let mut r = run_ops(prop, &ops, env);
        r.swarm = format!("systematic n={} hist={:?} variant={}", n, h, k / sys.hist.len());
        return r;
    }
    let seed = mix(&[verif_seed, prop as u64 + 0xC0, i]);
    let mut r = Rng::new(seed);
    let sw = gen::swarm(prop, &mut r, pools, env.corpus.len());
    let desc = sw.describe();
    let nops = sw.nops;
    let mut g = Gen::new(prop, r, sw);
    let mut sim = Sim::new(prop, env);
    let mut ops = Vec::with_capacity(nops);
    let mut stop = None;
    for _ in 0..nops {
        let op = g.next(&sim);
        ops.push(op.clone());
        if let Err(s) = sim.exec(&op) {
            stop = Some(s);
            break;
        }
    }
    finish_run(sim, ops, stop, desc)
}

// ---------------------------------------------------------------------------------------------
// replay files

pub struct ReplayFile {
    pub property: String,
    pub world: String,
    pub layer: String,
    pub verif_seed: u64,
    pub run: u64,
    pub swarm: String,
    pub signature: String,
    pub detail: String,
    pub body: Vec<String>,
}

impl ReplayFile {
    pub fn render(&self) -> String {
        let mut s = String::new();
        s.push_str("jbsim-replay v1\n");
        s.push_str(&format!("property {}\nworld {}\nlayer {}\nverif_seed {}\nrun {}\nswarm {}\nsignature {}\ndetail {}\nbody {}\n", self.property, self.world, self.layer, self.verif_seed, self.run, self.swarm, self.signature, self.detail.replace('\n', " "), self.body.len()));
        for l in &self.body {
            s.push_str(l);
            s.push('\n');
        }
        s.push_str("end\n");
        s
    }
    pub fn parse(text: &str) -> Result<ReplayFile, String> {
        let mut it = text.lines();
        if it.next() != Some("jbsim-replay v1") {
            return Err("not a jbsim replay file".into());
        }
        let mut f = ReplayFile { property: String::new(), world: String::new(), layer: String::new(), verif_seed: 0, run: 0, swarm: String::new(), signature: String::new(), detail: String::new(), body: vec![] };
        let mut nbody = None;
        for l in it.by_ref() {
            let (k, v) = l.split_once(' ').unwrap_or((l, ""));
            match k {
                "property" => f.property = v.to_string(),
                "world" => f.world = v.to_string(),
                "layer" => f.layer = v.to_string(),
                "verif_seed" => f.verif_seed = v.parse().map_err(|_| "bad verif_seed")?,
                "run" => f.run = v.parse().map_err(|_| "bad run")?,
                "swarm" => f.swarm = v.to_string(),
                "signature" => f.signature = v.to_string(),
                "detail" => f.detail = v.to_string(),
                "body" => {
                    nbody = Some(v.parse::<usize>().map_err(|_| "bad body count")?);
                    break;
                }
                _ => return Err(format!("unknown header line: {}", l)),
            }
        }
        let n = nbody.ok_or("missing body")?;
        for _ in 0..n {
            f.body.push(it.next().ok_or("truncated body")?.to_string());
        }
        if it.next() != Some("end") {
            return Err("missing end".into());
        }
        Ok(f)
    }
}

pub fn parse_ops(lines: &[String]) -> Result<Vec<TOp>, String> {
    lines.iter().map(|l| TOp::from_text(l).ok_or_else(|| format!("cannot parse op line: {}", l))).collect()
}

/// ddmin over the op list, keeping a candidate only if the same violation signature persists.
pub fn minimize(prop: Prop, ops: &[TOp], sig: &str, env: &mut Env, budget_s: f64) -> Vec<TOp> {
    let t0 = Instant::now();
    let still = |cand: &[TOp], env: &mut Env| -> bool {
        let r = run_ops(prop, cand, env);
        r.violation.map(|v| v.signature() == sig).unwrap_or(false)
    };
    let mut cur: Vec<TOp> = ops.to_vec();
    let mut n = 2usize;
    while cur.len() >= 2 && t0.elapsed().as_secs_f64() < budget_s {
        let chunk = cur.len().div_ceil(n);
        let mut reduced = false;
        let mut i = 0;
        while i < cur.len() {
            let end = (i + chunk).min(cur.len());
            let cand: Vec<TOp> = cur[..i].iter().chain(cur[end..].iter()).cloned().collect();
            if !cand.is_empty() && still(&cand, env) {
                cur = cand;
                n = n.saturating_sub(1).max(2);
                reduced = true;
                break;
            }
            i = end;
            if t0.elapsed().as_secs_f64() >= budget_s {
                break;
            }
        }
        if !reduced {
            if n >= cur.len() {
                break;
            }
            n = (n * 2).min(cur.len());
        }
    }
    // argument shrinking: merge all tasks into task 0, shorten utterances, default buffer sizes
    let mut try_replace = |cur: &mut Vec<TOp>, idx: usize, new: TOp, env: &mut Env| {
        if cur[idx] == new {
            return;
        }
        let mut cand = cur.clone();
        cand[idx] = new;
        if still(&cand, env) {
            *cur = cand;
        }
    };
    for idx in 0..cur.len() {
        if t0.elapsed().as_secs_f64() >= budget_s {
            break;
        }
        let mut o = cur[idx].clone();
        o.task = 0;
        try_replace(&mut cur, idx, o, env);
        use crate::ops::Op;
        let tk = cur[idx].task;
        match cur[idx].op.clone() {
            Op::Step { g, extra } if extra != 0 => try_replace(&mut cur, idx, TOp { task: tk, op: Op::Step { g, extra: 0 } }, env),
            Op::NewGen { e, g, utt } if utt.lines.len() > 1 => {
                for keep in [1usize, 2, utt.lines.len() / 2] {
                    if keep < utt.lines.len() {
                        let mut u = utt.clone();
                        u.lines.truncate(keep);
                        try_replace(&mut cur, idx, TOp { task: tk, op: Op::NewGen { e, g, utt: u } }, env);
                    }
                }
            }
            Op::Synth { e, utt, form } if utt.lines.len() > 1 => {
                for keep in [1usize, 2, utt.lines.len() / 2] {
                    if keep < utt.lines.len() {
                        let mut u = utt.clone();
                        u.lines.truncate(keep);
                        try_replace(&mut cur, idx, TOp { task: tk, op: Op::Synth { e, utt: u, form } }, env);
                    }
                }
            }
            _ => {}
        }
    }
    cur
}

// ---------------------------------------------------------------------------------------------
// batch

pub struct BatchCfg {
    pub prop: Prop,
    pub tier: String,
    pub verif_seed: u64,
    pub runs: u64,
    pub workers: usize,
    pub replay_dir: PathBuf,
    pub determinism_sample: u64,
    pub sys_max_n: usize,
    pub sys_variants: usize,
    pub dump_digests: Option<PathBuf>,
}

pub struct Found {
    pub run: u64,
    pub violation: Violation,
    pub ops: Vec<TOp>,
    pub swarm: String,
}

pub struct BatchOut {
    pub evaluations: u64,
    pub distinct_nontrivial: u64,
    pub distinct_histories: u64,
    pub stats: Stats,
    pub found: Vec<Found>,
    pub harness_errors: Vec<String>,
    pub samples: Vec<J>,
    pub wall_s: f64,
    pub determinism_pairs: u64,
    pub determinism_mismatches: u64,
    pub profiles: BTreeMap<String, u64>,
    pub sys_len: u64,
}

struct Summary {
    i: u64,
    trace_hash: u64,
    digest: u64,
    nontrivial: bool,
    stats: Stats,
    found: Option<Found>,
    harness: Option<String>,
    sample: Option<(String, Vec<String>, u64)>,
    profile: String,
}

/// One shard of a batch, executed single-threaded (in a child process, so that process-wide
/// state in the code under test cannot leak between concurrently running shards).
fn run_shard(cfg: &BatchCfg, shard: u64, of: u64, only: Option<&[u64]>, tag: &str) -> Result<Vec<Summary>, String> {
    let sys_hist = if cfg.prop == Prop::C02 { gen::systematic_c02_histories(cfg.sys_max_n) } else { vec![] };
    let sys = SysPrefix { hist: sys_hist, variants: cfg.sys_variants };
    let sys_len = sys.len() as u64;
    let total = cfg.runs + sys_len;
    let mut env = Env::new(tag)?;
    let pools = Pools::new(cfg.verif_seed);
    let mut out = Vec::new();
    let indices: Vec<u64> = match only {
        Some(v) => v.to_vec(),
        None => (0..total).filter(|i| i % of == shard).collect(),
    };
    let status = std::env::var_os("JBSIM_STATUS_FILE").map(PathBuf::from);
    for i in indices {
        if let Some(p) = &status {
            let _ = std::fs::write(p, format!("{}", i));
        }
        let t_run = Instant::now();
        let r = run_index(cfg.prop, cfg.verif_seed, i, &pools, &sys, &mut env);
        if std::env::var_os("JBSIM_SLOW").is_some() && t_run.elapsed().as_millis() > 50 {
            eprintln!("SLOW run {} {}ms {} ops={} samples={}", i, t_run.elapsed().as_millis(), r.swarm, r.ops.len(), r.stats.samples_compared);
        }
        let sample = if i % (total / 6).max(1) == 0 || (i >= sys_len && i < sys_len + 2) { Some((r.swarm.clone(), r.ops.iter().take(16).map(|o| o.to_text()).collect::<Vec<_>>(), r.ops.len() as u64)) } else { None };
        let profile = r.swarm.split_whitespace().next().unwrap_or("").to_string();
        out.push(Summary {
            i,
            trace_hash: r.trace_hash,
            digest: r.digest,
            nontrivial: r.nontrivial,
            stats: r.stats,
            found: r.violation.map(|v| Found { run: i, violation: v, ops: r.ops.clone(), swarm: r.swarm.clone() }),
            harness: r.harness,
            sample,
            profile,
        });
    }
    Ok(out)
}

fn clean(s: &str) -> String {
    s.replace(['\t', '\n'], " ")
}

fn write_shard(path: &Path, sums: &[Summary]) -> Result<(), String> {
    use std::fmt::Write as _;
    let mut t = String::new();
    let mut stats = Stats::default();
    for s in sums {
        let _ = writeln!(t, "R\t{}\t{:x}\t{:x}\t{}\t{}", s.i, s.trace_hash, s.digest, s.nontrivial as u8, clean(&s.profile));
        stats.merge(&s.stats);
        if let Some(f) = &s.found {
            let _ = writeln!(t, "F\t{}\t{}\t{}\t{}\t{}\t{}", f.run, f.violation.oracle, clean(&f.violation.class), clean(&f.violation.detail), f.violation.op_index, clean(&f.swarm));
            for o in &f.ops {
                let _ = writeln!(t, "O\t{}", o.to_text());
            }
            t.push_str("E\n");
        }
        if let Some(h) = &s.harness {
            let _ = writeln!(t, "H\t{}\t{}", s.i, clean(h));
        }
        if let Some((sw, ops, n)) = &s.sample {
            let _ = writeln!(t, "M\t{}\t{}\t{}", s.i, clean(sw), n);
            for o in ops {
                let _ = writeln!(t, "O\t{}", o);
            }
            t.push_str("E\n");
        }
    }
    for (k, v) in [("ops", stats.ops), ("noop_ops", stats.noop_ops), ("api_calls", stats.api_calls), ("comparisons", stats.comparisons), ("samples_compared", stats.samples_compared), ("vacuous", stats.vacuous)] {
        let _ = writeln!(t, "S\t{}\t{}", k, v);
    }
    for (k, v) in &stats.probes {
        let _ = writeln!(t, "P\t{}\t{}", k, v);
    }
    for (k, v) in &stats.kinds {
        let _ = writeln!(t, "K\t{}\t{}", k, v);
    }
    t.push_str("DONE\n");
    std::fs::write(path, t).map_err(|e| e.to_string())
}

struct ShardData {
    runs: Vec<(u64, u64, u64, bool, String)>,
    stats: Stats,
    found: Vec<Found>,
    harness: Vec<String>,
    samples: Vec<(u64, J)>,
}

fn read_shard(path: &Path) -> Result<ShardData, String> {
    let text = std::fs::read_to_string(path).map_err(|e| format!("{}: {}", path.display(), e))?;
    if !text.ends_with("DONE\n") {
        return Err(format!("{}: incomplete shard output (child died?)", path.display()));
    }
    let mut d = ShardData { runs: vec![], stats: Stats::default(), found: vec![], harness: vec![], samples: vec![] };
    let mut lines = text.lines();
    while let Some(l) = lines.next() {
        let f: Vec<&str> = l.split('\t').collect();
        match f[0] {
            "R" if f.len() >= 6 => d.runs.push((f[1].parse().unwrap_or(0), u64::from_str_radix(f[2], 16).unwrap_or(0), u64::from_str_radix(f[3], 16).unwrap_or(0), f[4] == "1", f[5].to_string())),
            "F" if f.len() >= 7 => {
                let mut ops = Vec::new();
                for o in lines.by_ref() {
                    if o == "E" {
                        break;
                    }
                    if let Some(t) = o.strip_prefix("O\t") {
                        ops.push(TOp::from_text(t).ok_or_else(|| format!("bad op line in shard output: {}", t))?);
                    }
                }
                let oracle: &'static str = Box::leak(f[2].to_string().into_boxed_str());
                d.found.push(Found { run: f[1].parse().unwrap_or(0), violation: Violation { oracle, class: f[3].to_string(), detail: f[4].to_string(), op_index: f[5].parse().unwrap_or(0) }, ops, swarm: f[6].to_string() });
            }
            "H" if f.len() >= 3 => d.harness.push(format!("run {}: {}", f[1], f[2])),
            "M" if f.len() >= 4 => {
                let mut ops = Vec::new();
                for o in lines.by_ref() {
                    if o == "E" {
                        break;
                    }
                    if let Some(t) = o.strip_prefix("O\t") {
                        ops.push(t.to_string());
                    }
                }
                let i: u64 = f[1].parse().unwrap_or(0);
                d.samples.push((i, J::obj().set("run", J::u(i)).set("swarm", J::s(f[2])).set("ops", J::strs(ops)).set("ops_total", J::u(f[3].parse().unwrap_or(0)))));
            }
            "S" if f.len() >= 3 => {
                let v: u64 = f[2].parse().unwrap_or(0);
                match f[1] {
                    "ops" => d.stats.ops += v,
                    "noop_ops" => d.stats.noop_ops += v,
                    "api_calls" => d.stats.api_calls += v,
                    "comparisons" => d.stats.comparisons += v,
                    "samples_compared" => d.stats.samples_compared += v,
                    "vacuous" => d.stats.vacuous += v,
                    _ => {}
                }
            }
            "P" if f.len() >= 3 => *d.stats.probes.entry(f[1].to_string()).or_insert(0) += f[2].parse::<u64>().unwrap_or(0),
            "K" if f.len() >= 3 => *d.stats.kinds.entry(f[1].to_string()).or_insert(0) += f[2].parse::<u64>().unwrap_or(0),
            _ => {}
        }
    }
    Ok(d)
}

/// Child side of `run_batch`.
pub fn run_child(cfg: &BatchCfg, shard: u64, of: u64, only: Option<Vec<u64>>, out: &Path) -> i32 {
    match run_shard(cfg, shard, of, only.as_deref(), &format!("w1-{}-{}", shard, if only.is_some() { "det" } else { "main" })) {
        Ok(sums) => match write_shard(out, &sums) {
            Ok(()) => 0,
            Err(e) => {
                eprintln!("w1child: {}", e);
                2
            }
        },
        Err(e) => {
            eprintln!("w1child: {}", e);
            2
        }
    }
}

fn spawn_child(cfg: &BatchCfg, shard: u64, of: u64, only: Option<&Path>, out: &Path, status: &Path) -> Result<std::process::Child, String> {
    let exe = std::env::current_exe().map_err(|e| e.to_string())?;
    let mut c = std::process::Command::new(exe);
    c.arg("w1child").arg(cfg.prop.id());
    c.args(["--seed", &cfg.verif_seed.to_string(), "--runs", &cfg.runs.to_string(), "--sys-variants", &cfg.sys_variants.to_string()]);
    c.args(["--shard", &shard.to_string(), "--of", &of.to_string(), "--out", out.to_str().unwrap()]);
    if let Some(o) = only {
        c.args(["--only", o.to_str().unwrap()]);
    }
    c.env("JBSIM_STATUS_FILE", status);
    c.stdout(std::process::Stdio::null());
    // stderr is inherited (the check driver redirects it to a log file)
    c.spawn().map_err(|e| e.to_string())
}

/// Parent: shard the batch over single-threaded child processes, merge their outputs in index order.
pub fn run_batch(cfg: &BatchCfg) -> Result<BatchOut, String> {
    let t0 = Instant::now();
    let workers = cfg.workers.max(1) as u64;
    let sys_len = if cfg.prop == Prop::C02 { (gen::systematic_c02_histories(cfg.sys_max_n).len() * cfg.sys_variants) as u64 } else { 0 };
    let total = cfg.runs + sys_len;
    let dir = crate::env::scratch_root().join("w1-parent");
    std::fs::create_dir_all(&dir).map_err(|e| e.to_string())?;
    let mut children = Vec::new();
    for k in 0..workers {
        let out = dir.join(format!("shard.{}", k));
        let status = dir.join(format!("status.{}", k));
        children.push((k, spawn_child(cfg, k, workers, None, &out, &status)?, out, status, String::new(), Instant::now()));
    }
    // determinism sample: the same runs again, in one more process, in reverse order
    let mut det_child = None;
    let mut det_idx: Vec<u64> = Vec::new();
    if cfg.determinism_sample > 0 {
        let mut r = Rng::new(mix(&[cfg.verif_seed, 0xde7e]));
        let mut idx: BTreeSet<u64> = BTreeSet::new();
        while (idx.len() as u64) < cfg.determinism_sample.min(total) {
            idx.insert(r.below(total as usize) as u64);
        }
        det_idx = idx.iter().rev().copied().collect();
        let f = dir.join("det.only");
        std::fs::write(&f, det_idx.iter().map(|i| i.to_string()).collect::<Vec<_>>().join("\n")).map_err(|e| e.to_string())?;
        let out = dir.join("shard.det");
        let status = dir.join("status.det");
        det_child = Some((spawn_child(cfg, 0, 1, Some(&f), &out, &status)?, out));
    }
    let mut harness_errors: Vec<String> = Vec::new();
    // wait, watching for children that stop making progress
    loop {
        let mut alive = 0;
        for (k, c, _, status, last, since) in children.iter_mut() {
            match c.try_wait() {
                Ok(Some(st)) => {
                    if !st.success() && !last.starts_with("exited") {
                        harness_errors.push(format!("worker process {} ended abnormally ({:?}) while executing run {}", k, st, std::fs::read_to_string(&*status).unwrap_or_default()));
                    }
                    *last = "exited".into();
                }
                Ok(None) => {
                    alive += 1;
                    let cur = std::fs::read_to_string(&*status).unwrap_or_default();
                    if cur != *last {
                        *last = cur;
                        *since = Instant::now();
                    } else if since.elapsed().as_secs() > 300 {
                        let _ = c.kill();
                        harness_errors.push(format!("worker process {} made no progress for 300 s in run {} (hang inside the code under test?)", k, last));
                        *last = "exited-killed".into();
                    }
                }
                Err(e) => harness_errors.push(e.to_string()),
            }
        }
        if alive == 0 {
            break;
        }
        std::thread::sleep(std::time::Duration::from_millis(10));
    }
    let mut out = BatchOut {
        evaluations: 0,
        distinct_nontrivial: 0,
        distinct_histories: 0,
        stats: Stats::default(),
        found: vec![],
        harness_errors: vec![],
        samples: vec![],
        wall_s: 0.0,
        determinism_pairs: 0,
        determinism_mismatches: 0,
        profiles: BTreeMap::new(),
        sys_len,
    };
    let mut runs: Vec<(u64, u64, u64, bool, String)> = Vec::new();
    let mut samples: Vec<(u64, J)> = Vec::new();
    for (_, _, path, _, _, _) in &children {
        match read_shard(path) {
            Ok(d) => {
                runs.extend(d.runs);
                out.stats.merge(&d.stats);
                out.found.extend(d.found);
                harness_errors.extend(d.harness);
                samples.extend(d.samples);
            }
            Err(e) => harness_errors.push(e),
        }
    }
    runs.sort_by_key(|r| r.0);
    out.found.sort_by_key(|f| f.run);
    samples.sort_by_key(|s| s.0);
    out.samples = samples.into_iter().map(|s| s.1).take(8).collect();
    if let Some((mut c, path)) = det_child {
        let _ = c.wait();
        match read_shard(&path) {
            Ok(d) => {
                let by_i: BTreeMap<u64, (u64, u64)> = runs.iter().map(|r| (r.0, (r.1, r.2))).collect();
                for r in d.runs {
                    if let Some(a) = by_i.get(&r.0) {
                        out.determinism_pairs += 1;
                        if *a != (r.1, r.2) {
                            out.determinism_mismatches += 1;
                        }
                    }
                }
                let _ = &det_idx;
            }
            Err(e) => harness_errors.push(format!("determinism pass: {}", e)),
        }
    }
    if let Some(p) = &cfg.dump_digests {
        let mut t = String::new();
        let found: BTreeSet<u64> = out.found.iter().map(|f| f.run).collect();
        for r in &runs {
            t.push_str(&format!("{} {:016x} {:016x} {}\n", r.0, r.1, r.2, found.contains(&r.0) as u8));
        }
        let _ = std::fs::write(p, t);
    }
    let mut seen = BTreeSet::new();
    let mut seen_nt = BTreeSet::new();
    for r in &runs {
        seen.insert(r.1);
        if r.3 {
            seen_nt.insert(r.1);
        }
        *out.profiles.entry(r.4.clone()).or_insert(0) += 1;
    }
    out.evaluations = runs.len() as u64;
    if out.evaluations < total && harness_errors.is_empty() {
        harness_errors.push(format!("only {} of {} runs were executed", out.evaluations, total));
    }
    harness_errors.truncate(10);
    out.harness_errors = harness_errors;
    out.distinct_histories = seen.len() as u64;
    out.distinct_nontrivial = seen_nt.len() as u64;
    out.wall_s = t0.elapsed().as_secs_f64();
    let _ = std::fs::remove_dir_all(&dir);
    Ok(out)
}

pub fn write_replay(dir: &Path, name: &str, f: &ReplayFile) -> Result<PathBuf, String> {
    std::fs::create_dir_all(dir).map_err(|e| e.to_string())?;
    let p = dir.join(name);
    std::fs::write(&p, f.render()).map_err(|e| e.to_string())?;
    Ok(p)
}
