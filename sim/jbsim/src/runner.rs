//! W1/L1 batch driver: seeded runs sharded over worker threads, replay files, ddmin minimisation.

use std::collections::{BTreeMap, BTreeSet};
use std::path::{Path, PathBuf};
use std::time::Instant;

use crate::env::Env;
use crate::gen::{self, Gen, Pools};
use crate::json::J;
use crate::ops::TOp;
use crate::rng::{mix, Rng};
use crate::sim::{HarnessError, Prop, Sim, Stats, Stop, Violation};

pub struct RunResult {
    pub ops: Vec<TOp>,
    pub violation: Option<Violation>,
    pub harness: Option<String>,
    pub stats: Stats,
    pub trace_hash: u64,
    pub digest: u64,
    pub nontrivial: bool,
    pub swarm: String,
    pub refs: Vec<crate::sim::RefKey>,
}

fn finish_run(mut sim: Sim, ops: Vec<TOp>, stop: Option<Stop>, swarm: String) -> RunResult {
    let mut violation = None;
    let mut harness = None;
    match stop {
        Some(Stop::Violation(v)) => violation = Some(v),
        Some(Stop::Harness(HarnessError(e))) => harness = Some(e),
        None => match sim.finish() {
            Err(Stop::Violation(v)) => violation = Some(v),
            Err(Stop::Harness(HarnessError(e))) => harness = Some(e),
            Ok(()) => {}
        },
    }
    let refs = if violation.is_none() && harness.is_none() { std::mem::take(&mut sim.refs) } else { Vec::new() };
    RunResult { ops, violation, harness, stats: sim.stats.clone(), trace_hash: sim.trace_hash, digest: sim.digest, nontrivial: sim.nontrivial, swarm, refs }
}

/// Execute an explicit history.
pub fn run_ops(prop: Prop, ops: &[TOp], env: &mut Env) -> RunResult {
    let mut sim = Sim::new(prop, env);
    let mut stop = None;
    let mut done = Vec::new();
    for op in ops {
        done.push(op.clone());
        if let Err(s) = sim.exec(op) {
            stop = Some(s);
            break;
        }
    }
    finish_run(sim, done, stop, "replay".into())
}

pub struct SysPrefix {
    pub hist: Vec<(usize, Vec<u8>)>,
    pub variants: usize,
}

impl SysPrefix {
    pub fn len(&self) -> usize {
        self.hist.len() * self.variants
    }
}

/// Run number `i` of a batch: the systematic prefix first, then seeded histories.
pub fn run_index(prop: Prop, verif_seed: u64, i: u64, pools: &Pools, sys: &SysPrefix, env: &mut Env) -> RunResult {
    if prop == Prop::C02 && (i as usize) < sys.len() {
        let k = i as usize;
        let (n, h) = &sys.hist[k % sys.hist.len()];
        let ops = gen::systematic_c02_ops(*n, h, k / sys.hist.len());
        let mut r = run_ops(prop, &ops, env);
        r.swarm = format!("systematic n={} hist={:?} variant={}", n, h, k / sys.hist.len());
        return r;
    }
    let seed = mix(&[verif_seed, prop as u64 + 0xC0, i]);
    let mut r = Rng::new(seed);
    let sw = gen::swarm(prop, &mut r, pools, env.corpus.len());
    let desc = sw.describe();
    let nops = sw.nops;
    let mut g = Gen::new(prop, r, sw);
    let mut sim = Sim::new(prop, env);
    let mut ops = Vec::with_capacity(nops);
    let mut stop = None;
    for _ in 0..nops {
        let op = g.next(&sim);
        ops.push(op.clone());
        if let Err(s) = sim.exec(&op) {
            stop = Some(s);
            break;
        }
    }
    finish_run(sim, ops, stop, desc)
}

// ---------------------------------------------------------------------------------------------
// replay files

pub struct ReplayFile {
    pub property: String,
    pub world: String,
    pub layer: String,
    pub verif_seed: u64,
    pub run: u64,
    pub swarm: String,
    pub signature: String,
    pub detail: String,
    pub body: Vec<String>,
}

impl ReplayFile {
    pub fn render(&self) -> String {
        let mut s = String::new();
        s.push_str("jbsim-replay v1\n");
        s.push_str(&format!("property {}\nworld {}\nlayer {}\nverif_seed {}\nrun {}\nswarm {}\nsignature {}\ndetail {}\nbody {}\n", self.property, self.world, self.layer, self.verif_seed, self.run, self.swarm, self.signature, self.detail.replace('\n', " "), self.body.len()));
        for l in &self.body {
            s.push_str(l);
            s.push('\n');
        }
        s.push_str("end\n");
        s
    }
    pub fn parse(text: &str) -> Result<ReplayFile, String> {
        let mut it = text.lines();
        if it.next() != Some("jbsim-replay v1") {
            return Err("not a jbsim replay file".into());
        }
        let mut f = ReplayFile { property: String::new(), world: String::new(), layer: String::new(), verif_seed: 0, run: 0, swarm: String::new(), signature: String::new(), detail: String::new(), body: vec![] };
        let mut nbody = None;
        for l in it.by_ref() {
            let (k, v) = l.split_once(' ').unwrap_or((l, ""));
            match k {
                "property" => f.property = v.to_string(),
                "world" => f.world = v.to_string(),
                "layer" => f.layer = v.to_string(),
                "verif_seed" => f.verif_seed = v.parse().map_err(|_| "bad verif_seed")?,
                "run" => f.run = v.parse().map_err(|_| "bad run")?,
                "swarm" => f.swarm = v.to_string(),
                "signature" => f.signature = v.to_string(),
                "detail" => f.detail = v.to_string(),
                "body" => {
                    nbody = Some(v.parse::<usize>().map_err(|_| "bad body count")?);
                    break;
                }
                _ => return Err(format!("unknown header line: {}", l)),
            }
        }
        let n = nbody.ok_or("missing body")?;
        for _ in 0..n {
            f.body.push(it.next().ok_or("truncated body")?.to_string());
        }
        if it.next() != Some("end") {
            return Err("missing end".into());
        }
        Ok(f)
    }
}

pub fn parse_ops(lines: &[String]) -> Result<Vec<TOp>, String> {
    lines.iter().map(|l| TOp::from_text(l).ok_or_else(|| format!("cannot parse op line: {}", l))).collect()
}

/// ddmin over the op list, keeping a candidate only if the same violation signature persists.
pub fn minimize(prop: Prop, ops: &[TOp], sig: &str, env: &mut Env, budget_s: f64) -> Vec<TOp> {
    let t0 = Instant::now();
    let scratch = env.dir.join("min.out");
    let still = |cand: &[TOp], env: &mut Env| -> bool {
        match run_ops_isolated(prop, cand, env, &scratch) {
            Ok((Some(v), _)) => v.signature() == sig,
            _ => false,
        }
    };
    let mut cur: Vec<TOp> = ops.to_vec();
    let mut n = 2usize;
    while cur.len() >= 2 && t0.elapsed().as_secs_f64() < budget_s {
        let chunk = cur.len().div_ceil(n);
        let mut reduced = false;
        let mut i = 0;
        while i < cur.len() {
            let end = (i + chunk).min(cur.len());
            let cand: Vec<TOp> = cur[..i].iter().chain(cur[end..].iter()).cloned().collect();
            if !cand.is_empty() && still(&cand, env) {
                cur = cand;
                n = n.saturating_sub(1).max(2);
                reduced = true;
                break;
            }
            i = end;
            if t0.elapsed().as_secs_f64() >= budget_s {
                break;
            }
        }
        if !reduced {
            if n >= cur.len() {
                break;
            }
            n = (n * 2).min(cur.len());
        }
    }
    // argument shrinking: merge all tasks into task 0, shorten utterances, default buffer sizes
    let mut try_replace = |cur: &mut Vec<TOp>, idx: usize, new: TOp, env: &mut Env| {
        if cur[idx] == new {
            return;
        }
        let mut cand = cur.clone();
        cand[idx] = new;
        if still(&cand, env) {
            *cur = cand;
        }
    };
    for idx in 0..cur.len() {
        if t0.elapsed().as_secs_f64() >= budget_s {
            break;
        }
        let mut o = cur[idx].clone();
        o.task = 0;
        try_replace(&mut cur, idx, o, env);
        use crate::ops::Op;
        let tk = cur[idx].task;
        match cur[idx].op.clone() {
            Op::Step { g, extra } if extra != 0 => try_replace(&mut cur, idx, TOp { task: tk, op: Op::Step { g, extra: 0 } }, env),
            Op::NewGen { e, g, utt } if utt.lines.len() > 1 => {
                for keep in [1usize, 2, utt.lines.len() / 2] {
                    if keep < utt.lines.len() {
                        let mut u = utt.clone();
                        u.lines.truncate(keep);
                        try_replace(&mut cur, idx, TOp { task: tk, op: Op::NewGen { e, g, utt: u } }, env);
                    }
                }
            }
            Op::Synth { e, utt, form } if utt.lines.len() > 1 => {
                for keep in [1usize, 2, utt.lines.len() / 2] {
                    if keep < utt.lines.len() {
                        let mut u = utt.clone();
                        u.lines.truncate(keep);
                        try_replace(&mut cur, idx, TOp { task: tk, op: Op::Synth { e, utt: u, form } }, env);
                    }
                }
            }
            _ => {}
        }
    }
    cur
}

// ---------------------------------------------------------------------------------------------
// batch

pub struct BatchCfg {
    pub prop: Prop,
    pub tier: String,
    pub verif_seed: u64,
    pub runs: u64,
    pub workers: usize,
    pub replay_dir: PathBuf,
    pub determinism_sample: u64,
    pub sys_max_n: usize,
    pub sys_variants: usize,
    pub dump_digests: Option<PathBuf>,
    /// consecutive runs executed in one forked process (1 = full isolation; larger amortises the fork)
    pub runs_per_fork: u64,
}

pub struct Found {
    pub run: u64,
    pub violation: Violation,
    pub ops: Vec<TOp>,
    pub swarm: String,
}

pub struct BatchOut {
    pub evaluations: u64,
    pub distinct_nontrivial: u64,
    pub distinct_histories: u64,
    pub stats: Stats,
    pub found: Vec<Found>,
    pub harness_errors: Vec<String>,
    pub samples: Vec<J>,
    pub wall_s: f64,
    pub determinism_pairs: u64,
    pub determinism_mismatches: u64,
    pub det_mismatch_runs: Vec<u64>,
    pub profiles: BTreeMap<String, u64>,
    pub sys_len: u64,
}

struct Summary {
    i: u64,
    trace_hash: u64,
    digest: u64,
    nontrivial: bool,
    stats: Stats,
    found: Option<Found>,
    harness: Option<String>,
    sample: Option<(String, Vec<String>, u64)>,
    profile: String,
    refs: Vec<crate::sim::RefKey>,
    ops_for_refs: Vec<TOp>,
    swarm: String,
}

/// One shard of a batch, executed single-threaded (in a child process, so that process-wide
/// state in the code under test cannot leak between concurrently running shards).
fn summary_of(i: u64, r: RunResult, sample: bool) -> Summary {
    let sample = if sample { Some((r.swarm.clone(), r.ops.iter().take(16).map(|o| o.to_text()).collect::<Vec<_>>(), r.ops.len() as u64)) } else { None };
    let profile = r.swarm.split_whitespace().next().unwrap_or("").to_string();
    let ops_for_refs = if r.refs.is_empty() { Vec::new() } else { r.ops.clone() };
    Summary {
        i,
        trace_hash: r.trace_hash,
        digest: r.digest,
        nontrivial: r.nontrivial,
        stats: r.stats,
        found: r.violation.map(|v| Found { run: i, violation: v, ops: r.ops.clone(), swarm: r.swarm.clone() }),
        harness: r.harness,
        sample,
        profile,
        refs: r.refs,
        ops_for_refs,
        swarm: r.swarm,
    }
}

/// Execute the canonical history of a reference key in a pristine (forked) process and compare.
pub fn check_refs(refs: &[crate::sim::RefKey], env: &mut Env, scratch: &Path) -> Result<Option<Violation>, String> {
    for rk in refs {
        let canon = rk.canonical.clone();
        let out = crate::fork::isolated(scratch, std::time::Duration::from_secs(300), || {
            let r = run_ops(Prop::C03, &canon, env);
            if let Some(h) = r.harness {
                return format!("H {}", h);
            }
            match r.refs.last() {
                Some(k) => format!("W {:x} {}", k.hash, k.len),
                None => "N".to_string(),
            }
        });
        match out {
            crate::fork::ForkOut::Ok(t) => {
                if let Some(h) = t.strip_prefix("H ") {
                    return Err(format!("reference history failed: {}", h));
                }
                let want = format!("W {:x} {}", rk.hash, rk.len);
                if t != want {
                    let got = if t == "N" { "no waveform (panic or error)".to_string() } else { format!("a waveform of {} samples", t.split(' ').nth(2).unwrap_or("?")) };
                    return Ok(Some(Violation {
                        oracle: "C03.fresh-process-reference",
                        class: if t == "N" { "outcome-differs-from-pristine-process".into() } else { "waveform-differs-from-pristine-process".into() },
                        detail: format!(
                            "op#{} produced a waveform of {} samples; the same voice set, condition and labels reached from scratch in a pristine process ({} ops: load, setters, one synthesis) gave {} - the output depends on what happened earlier in the process",
                            rk.at_op,
                            rk.len,
                            rk.canonical.len(),
                            got
                        ),
                        op_index: rk.at_op,
                    }));
                }
            }
            crate::fork::ForkOut::Died(d) => return Err(format!("reference process died: {}", d)),
        }
    }
    Ok(None)
}

/// Execute a history in a forked process (plus its fresh-process references); returns the
/// violation found, if any. Used by replay and by the minimiser.
pub fn run_ops_isolated(prop: Prop, ops: &[TOp], env: &mut Env, scratch: &Path) -> Result<(Option<Violation>, usize), String> {
    let ops_v = ops.to_vec();
    let out = crate::fork::isolated(scratch, std::time::Duration::from_secs(600), || {
        let r = run_ops(prop, &ops_v, env);
        let s = summary_of(0, r, false);
        let mut t = String::new();
        write_summary(&mut t, &s);
        t
    });
    match out {
        crate::fork::ForkOut::Ok(t) => {
            let d = parse_shard_text(&t)?;
            if let Some(h) = d.harness.first() {
                return Err(h.clone());
            }
            if let Some(f) = d.found.into_iter().next() {
                let n = f.ops.len();
                return Ok((Some(f.violation), n));
            }
            if prop == Prop::C03 {
                for (_, refs, _, _) in &d.refs {
                    if let Some(v) = check_refs(refs, env, scratch)? {
                        return Ok((Some(v), ops.len()));
                    }
                }
            }
            Ok((None, ops.len()))
        }
        crate::fork::ForkOut::Died(d) => Err(format!("isolated run died: {}", d)),
    }
}

/// One shard of a batch. Every run is executed in its own forked process, so nothing the code
/// under test leaves behind (statics, thread-locals) can reach the next run.
fn run_shard(cfg: &BatchCfg, shard: u64, of: u64, only: Option<&[u64]>, tag: &str, out_path: &Path) -> Result<(), String> {
    use std::io::Write as _;
    let sys_hist = if cfg.prop == Prop::C02 { gen::systematic_c02_histories(cfg.sys_max_n) } else { vec![] };
    let sys = SysPrefix { hist: sys_hist, variants: cfg.sys_variants };
    let sys_len = sys.len() as u64;
    let total = cfg.runs + sys_len;
    crate::fork::own_process_group();
    let mut env = Env::new(tag)?;
    let pools = Pools::new(cfg.verif_seed);
    // voice files are written once per shard (harness code only; nothing of jbonsai runs here), the
    // forked runs find them by name and only have to load them
    env.prebuild_pool_voices(&pools, cfg.prop == Prop::C02, matches!(cfg.prop, Prop::C19 | Prop::C20));
    // runs are grouped: group g = runs [g*k, (g+1)*k); a group is the unit of forking, sharding and of
    // the determinism pass (`only` lists group ids)
    let k = cfg.runs_per_fork.max(1);
    let ngroups = total.div_ceil(k);
    let groups: Vec<u64> = match only {
        Some(v) => v.to_vec(),
        None => (0..ngroups).filter(|g| g % of == shard).collect(),
    };
    let status = std::env::var_os("JBSIM_STATUS_FILE").map(PathBuf::from);
    let scratch = env.dir.join("run.out");
    let scratch2 = env.dir.join("ref.out");
    let mut out = std::io::BufWriter::new(std::fs::File::create(out_path).map_err(|e| e.to_string())?);
    let no_fork = std::env::var_os("JBSIM_NO_FORK").is_some();
    for g in groups {
        let first = g * k;
        let last = ((g + 1) * k).min(total);
        if let Some(p) = &status {
            let _ = std::fs::write(p, format!("{}", first));
        }
        let body = |env: &mut Env| -> String {
            let mut t = String::new();
            for i in first..last {
                let want_sample = i % (total / 6).max(1) == 0 || (i >= sys_len && i < sys_len + 2);
                let t_run = Instant::now();
                let r = run_index(cfg.prop, cfg.verif_seed, i, &pools, &sys, env);
                if std::env::var_os("JBSIM_SLOW").is_some() && t_run.elapsed().as_millis() > 50 {
                    eprintln!("SLOW run {} {}ms {} ops={} samples={}", i, t_run.elapsed().as_millis(), r.swarm, r.ops.len(), r.stats.samples_compared);
                }
                let s = summary_of(i, r, want_sample);
                write_summary(&mut t, &s);
            }
            t
        };
        let text = if no_fork {
            body(&mut env)
        } else {
            match crate::fork::isolated(&scratch, std::time::Duration::from_secs(7200), || body(&mut env)) {
                crate::fork::ForkOut::Ok(t) => t,
                crate::fork::ForkOut::Died(d) => format!("H\t{}\trun process died (runs {}..{}): {}\n", first, first, last, d),
            }
        };
        let _ = out.write_all(text.as_bytes());
        // fresh-process references (C03): the canonical history of the most recent keys
        if cfg.prop == Prop::C03 && text.contains("\nK\t") || text.starts_with("K\t") {
            let d = parse_shard_text(&text)?;
            for (run, refs, ops, swarm) in d.refs {
                match check_refs(&refs, &mut env, &scratch2) {
                    Ok(None) => {
                        let _ = writeln!(out, "P\tfresh_process_reference_checked\t{}", refs.len());
                    }
                    Ok(Some(v)) => {
                        let mut t = String::new();
                        write_found(&mut t, &Found { run, violation: v, ops, swarm });
                        let _ = out.write_all(t.as_bytes());
                    }
                    Err(e) => {
                        let _ = writeln!(out, "H\t{}\t{}", run, clean(&e));
                    }
                }
            }
        }
    }
    let _ = out.write_all(b"DONE\n");
    out.flush().map_err(|e| e.to_string())
}

fn clean(s: &str) -> String {
    s.replace(['\t', '\n'], " ")
}

fn write_found(t: &mut String, f: &Found) {
    use std::fmt::Write as _;
    let _ = writeln!(t, "F\t{}\t{}\t{}\t{}\t{}\t{}", f.run, f.violation.oracle, clean(&f.violation.class), clean(&f.violation.detail), f.violation.op_index, clean(&f.swarm));
    for o in &f.ops {
        let _ = writeln!(t, "O\t{}", o.to_text());
    }
    t.push_str("E\n");
}

/// Text form of one run's result (concatenated into the shard file).
fn write_summary(t: &mut String, s: &Summary) {
    use std::fmt::Write as _;
    let _ = writeln!(t, "R\t{}\t{:x}\t{:x}\t{}\t{}", s.i, s.trace_hash, s.digest, s.nontrivial as u8, clean(&s.profile));
    if let Some(f) = &s.found {
        write_found(t, f);
    }
    if let Some(h) = &s.harness {
        let _ = writeln!(t, "H\t{}\t{}", s.i, clean(h));
    }
    if let Some((sw, ops, n)) = &s.sample {
        let _ = writeln!(t, "M\t{}\t{}\t{}", s.i, clean(sw), n);
        for o in ops {
            let _ = writeln!(t, "O\t{}", o);
        }
        t.push_str("E\n");
    }
    if !s.refs.is_empty() {
        let _ = writeln!(t, "K\t{}\t{}", s.i, clean(&s.swarm));
        for k in &s.refs {
            let canon: Vec<String> = k.canonical.iter().map(|o| o.to_text()).collect();
            let _ = writeln!(t, "k\t{:x}\t{}\t{}\t{}", k.hash, k.len, k.at_op, canon.join("\x1e"));
        }
        for o in &s.ops_for_refs {
            let _ = writeln!(t, "O\t{}", o.to_text());
        }
        t.push_str("E\n");
    }
    let st = &s.stats;
    for (k, v) in [("ops", st.ops), ("noop_ops", st.noop_ops), ("api_calls", st.api_calls), ("comparisons", st.comparisons), ("samples_compared", st.samples_compared), ("vacuous", st.vacuous)] {
        if v > 0 {
            let _ = writeln!(t, "S\t{}\t{}", k, v);
        }
    }
    for (k, v) in &st.probes {
        let _ = writeln!(t, "P\t{}\t{}", k, v);
    }
    for (k, v) in &st.kinds {
        let _ = writeln!(t, "C\t{}\t{}", k, v);
    }
}

struct ShardData {
    runs: Vec<(u64, u64, u64, bool, String)>,
    stats: Stats,
    found: Vec<Found>,
    harness: Vec<String>,
    samples: Vec<(u64, J)>,
    /// (run, reference keys, the run's ops, swarm)
    refs: Vec<(u64, Vec<crate::sim::RefKey>, Vec<TOp>, String)>,
}

fn read_shard(path: &Path) -> Result<ShardData, String> {
    let text = std::fs::read_to_string(path).map_err(|e| format!("{}: {}", path.display(), e))?;
    if !text.ends_with("DONE\n") {
        return Err(format!("{}: incomplete shard output (child died?)", path.display()));
    }
    parse_shard_text(&text)
}

fn parse_shard_text(text: &str) -> Result<ShardData, String> {
    let mut d = ShardData { runs: vec![], stats: Stats::default(), found: vec![], harness: vec![], samples: vec![], refs: vec![] };
    let mut lines = text.lines();
    while let Some(l) = lines.next() {
        let f: Vec<&str> = l.split('\t').collect();
        match f[0] {
            "R" if f.len() >= 6 => d.runs.push((f[1].parse().unwrap_or(0), u64::from_str_radix(f[2], 16).unwrap_or(0), u64::from_str_radix(f[3], 16).unwrap_or(0), f[4] == "1", f[5].to_string())),
            "F" if f.len() >= 7 => {
                let mut ops = Vec::new();
                for o in lines.by_ref() {
                    if o == "E" {
                        break;
                    }
                    if let Some(t) = o.strip_prefix("O\t") {
                        ops.push(TOp::from_text(t).ok_or_else(|| format!("bad op line in shard output: {}", t))?);
                    }
                }
                let oracle: &'static str = Box::leak(f[2].to_string().into_boxed_str());
                d.found.push(Found { run: f[1].parse().unwrap_or(0), violation: Violation { oracle, class: f[3].to_string(), detail: f[4].to_string(), op_index: f[5].parse().unwrap_or(0) }, ops, swarm: f[6].to_string() });
            }
            "H" if f.len() >= 3 => d.harness.push(format!("run {}: {}", f[1], f[2])),
            "M" if f.len() >= 4 => {
                let mut ops = Vec::new();
                for o in lines.by_ref() {
                    if o == "E" {
                        break;
                    }
                    if let Some(t) = o.strip_prefix("O\t") {
                        ops.push(t.to_string());
                    }
                }
                let i: u64 = f[1].parse().unwrap_or(0);
                d.samples.push((i, J::obj().set("run", J::u(i)).set("swarm", J::s(f[2])).set("ops", J::strs(ops)).set("ops_total", J::u(f[3].parse().unwrap_or(0)))));
            }
            "K" if f.len() >= 3 => {
                let run: u64 = f[1].parse().unwrap_or(0);
                let mut refs = Vec::new();
                let mut ops = Vec::new();
                for o in lines.by_ref() {
                    if o == "E" {
                        break;
                    }
                    if let Some(t) = o.strip_prefix("O\t") {
                        ops.push(TOp::from_text(t).ok_or_else(|| format!("bad op line: {}", t))?);
                    } else if let Some(t) = o.strip_prefix("k\t") {
                        let g: Vec<&str> = t.split('\t').collect();
                        if g.len() >= 4 {
                            let canonical = g[3].split('\x1e').map(|x| TOp::from_text(x).ok_or_else(|| format!("bad canonical op: {}", x))).collect::<Result<Vec<_>, _>>()?;
                            refs.push(crate::sim::RefKey { kind: 0, hash: u64::from_str_radix(g[0], 16).unwrap_or(0), len: g[1].parse().unwrap_or(0), at_op: g[2].parse().unwrap_or(0), canonical });
                        }
                    }
                }
                d.refs.push((run, refs, ops, f[2].to_string()));
            }
            "S" if f.len() >= 3 => {
                let v: u64 = f[2].parse().unwrap_or(0);
                match f[1] {
                    "ops" => d.stats.ops += v,
                    "noop_ops" => d.stats.noop_ops += v,
                    "api_calls" => d.stats.api_calls += v,
                    "comparisons" => d.stats.comparisons += v,
                    "samples_compared" => d.stats.samples_compared += v,
                    "vacuous" => d.stats.vacuous += v,
                    _ => {}
                }
            }
            "P" if f.len() >= 3 => *d.stats.probes.entry(f[1].to_string()).or_insert(0) += f[2].parse::<u64>().unwrap_or(0),
            "C" if f.len() >= 3 => *d.stats.kinds.entry(f[1].to_string()).or_insert(0) += f[2].parse::<u64>().unwrap_or(0),
            _ => {}
        }
    }
    Ok(d)
}

/// Child side of `run_batch`.
pub fn run_child(cfg: &BatchCfg, shard: u64, of: u64, only: Option<Vec<u64>>, out: &Path) -> i32 {
    match run_shard(cfg, shard, of, only.as_deref(), &format!("w1-{}-{}", shard, if only.is_some() { "det" } else { "main" }), out) {
        Ok(()) => 0,
        Err(e) => {
            eprintln!("w1child: {}", e);
            2
        }
    }
}

fn spawn_child(cfg: &BatchCfg, shard: u64, of: u64, only: Option<&Path>, out: &Path, status: &Path) -> Result<std::process::Child, String> {
    let exe = std::env::current_exe().map_err(|e| e.to_string())?;
    let mut c = std::process::Command::new(exe);
    c.arg("w1child").arg(cfg.prop.id());
    c.args(["--tier", &cfg.tier, "--seed", &cfg.verif_seed.to_string(), "--runs", &cfg.runs.to_string(), "--sys-variants", &cfg.sys_variants.to_string()]);
    c.args(["--shard", &shard.to_string(), "--of", &of.to_string(), "--out", out.to_str().unwrap(), "--runs-per-fork", &cfg.runs_per_fork.to_string()]);
    if let Some(o) = only {
        c.args(["--only", o.to_str().unwrap()]);
    }
    c.env("JBSIM_STATUS_FILE", status);
    c.stdout(std::process::Stdio::null());
    // stderr is inherited (the check driver redirects it to a log file)
    c.spawn().map_err(|e| e.to_string())
}

/// Execute one group of runs (the unit of forking) again exactly the way the batch did: a freshly
/// spawned shard process regenerates the runs from the seed and executes them in one forked child.
/// Used for violations that depend on where the allocator places things and therefore do not
/// reproduce from an explicit op list, whose replay allocates differently (replay layer `L1-group`).
pub fn rerun_group(cfg: &BatchCfg, gid: u64, with_shard_prefix: bool) -> Result<Vec<Found>, String> {
    let dir = crate::env::scratch_root().join(format!("w1-regroup-{}", std::process::id()));
    std::fs::create_dir_all(&dir).map_err(|e| e.to_string())?;
    let only = dir.join("only");
    // with_shard_prefix: every group the group's shard process executed before it in the batch, in the same
    // order, so that the forking parent has lived through the same history when it forks the group
    let w = cfg.workers.max(1) as u64;
    let list: Vec<String> = if with_shard_prefix { (0..=gid).filter(|g| g % w == gid % w).map(|g| g.to_string()).collect() } else { vec![gid.to_string()] };
    std::fs::write(&only, format!("{}\n", list.join("\n"))).map_err(|e| e.to_string())?;
    let out = dir.join("shard.out");
    let status = dir.join("status");
    let mut c = spawn_child(cfg, 0, 1, Some(&only), &out, &status)?;
    let st = c.wait().map_err(|e| e.to_string())?;
    if !st.success() {
        return Err(format!("group process ended abnormally: {:?}", st));
    }
    let d = read_shard(&out)?;
    let _ = std::fs::remove_dir_all(&dir);
    Ok(d.found)
}

/// Parent: shard the batch over single-threaded child processes, merge their outputs in index order.
pub fn run_batch(cfg: &BatchCfg) -> Result<BatchOut, String> {
    let t0 = Instant::now();
    let workers = cfg.workers.max(1) as u64;
    let sys_len = if cfg.prop == Prop::C02 { (gen::systematic_c02_histories(cfg.sys_max_n).len() * cfg.sys_variants) as u64 } else { 0 };
    let total = cfg.runs + sys_len;
    let dir = crate::env::scratch_root().join("w1-parent");
    std::fs::create_dir_all(&dir).map_err(|e| e.to_string())?;
    let mut children = Vec::new();
    for k in 0..workers {
        let out = dir.join(format!("shard.{}", k));
        let status = dir.join(format!("status.{}", k));
        children.push((k, spawn_child(cfg, k, workers, None, &out, &status)?, out, status, String::new(), Instant::now()));
    }
    // determinism sample: the same runs again, in one more process, in reverse order
    let mut det_child = None;
    let mut det_idx: Vec<u64> = Vec::new();
    if cfg.determinism_sample > 0 {
        let mut r = Rng::new(mix(&[cfg.verif_seed, 0xde7e]));
        let mut idx: BTreeSet<u64> = BTreeSet::new();
        let k = cfg.runs_per_fork.max(1);
        let ngroups = total.div_ceil(k);
        let want_groups = (cfg.determinism_sample / k).max(1).min(ngroups);
        while (idx.len() as u64) < want_groups {
            idx.insert(r.below(ngroups as usize) as u64);
        }
        det_idx = idx.iter().rev().copied().collect();
        let f = dir.join("det.only");
        std::fs::write(&f, det_idx.iter().map(|i| i.to_string()).collect::<Vec<_>>().join("\n")).map_err(|e| e.to_string())?;
        let out = dir.join("shard.det");
        let status = dir.join("status.det");
        det_child = Some((spawn_child(cfg, 0, 1, Some(&f), &out, &status)?, out));
    }
    let mut harness_errors: Vec<String> = Vec::new();
    // wait, watching for children that stop making progress
    loop {
        let mut alive = 0;
        for (k, c, _, status, last, since) in children.iter_mut() {
            match c.try_wait() {
                Ok(Some(st)) => {
                    if !st.success() && !last.starts_with("exited") {
                        harness_errors.push(format!("worker process {} ended abnormally ({:?}) while executing run {}", k, st, std::fs::read_to_string(&*status).unwrap_or_default()));
                    }
                    *last = "exited".into();
                }
                Ok(None) => {
                    alive += 1;
                    let cur = std::fs::read_to_string(&*status).unwrap_or_default();
                    if cur != *last {
                        *last = cur;
                        *since = Instant::now();
                    } else if since.elapsed().as_secs() > 900 {
                        crate::fork::kill_group(c.id());
                        let _ = c.kill();
                        harness_errors.push(format!("worker process {} made no progress for 900 s in run {} (hang inside the code under test?)", k, last));
                        *last = "exited-killed".into();
                    }
                }
                Err(e) => harness_errors.push(e.to_string()),
            }
        }
        if alive == 0 {
            break;
        }
        std::thread::sleep(std::time::Duration::from_millis(10));
    }
    let mut out = BatchOut {
        evaluations: 0,
        distinct_nontrivial: 0,
        distinct_histories: 0,
        stats: Stats::default(),
        found: vec![],
        harness_errors: vec![],
        samples: vec![],
        wall_s: 0.0,
        determinism_pairs: 0,
        determinism_mismatches: 0,
        det_mismatch_runs: vec![],
        profiles: BTreeMap::new(),
        sys_len,
    };
    let mut runs: Vec<(u64, u64, u64, bool, String)> = Vec::new();
    let mut samples: Vec<(u64, J)> = Vec::new();
    for (_, _, path, _, _, _) in &children {
        match read_shard(path) {
            Ok(d) => {
                runs.extend(d.runs);
                out.stats.merge(&d.stats);
                out.found.extend(d.found);
                harness_errors.extend(d.harness);
                samples.extend(d.samples);
            }
            Err(e) => harness_errors.push(e),
        }
    }
    runs.sort_by_key(|r| r.0);
    out.found.sort_by_key(|f| f.run);
    samples.sort_by_key(|s| s.0);
    out.samples = samples.into_iter().map(|s| s.1).take(8).collect();
    if let Some((mut c, path)) = det_child {
        let _ = c.wait();
        match read_shard(&path) {
            Ok(d) => {
                let by_i: BTreeMap<u64, (u64, u64)> = runs.iter().map(|r| (r.0, (r.1, r.2))).collect();
                for r in d.runs {
                    if let Some(a) = by_i.get(&r.0) {
                        out.determinism_pairs += 1;
                        if *a != (r.1, r.2) {
                            out.determinism_mismatches += 1;
                            out.det_mismatch_runs.push(r.0);
                        }
                    }
                }
                let _ = &det_idx;
            }
            Err(e) => harness_errors.push(format!("determinism pass: {}", e)),
        }
    }
    if let Some(p) = &cfg.dump_digests {
        let mut t = String::new();
        let found: BTreeSet<u64> = out.found.iter().map(|f| f.run).collect();
        for r in &runs {
            t.push_str(&format!("{} {:016x} {:016x} {}\n", r.0, r.1, r.2, found.contains(&r.0) as u8));
        }
        let _ = std::fs::write(p, t);
    }
    let mut seen = BTreeSet::new();
    let mut seen_nt = BTreeSet::new();
    for r in &runs {
        seen.insert(r.1);
        if r.3 {
            seen_nt.insert(r.1);
        }
        *out.profiles.entry(r.4.clone()).or_insert(0) += 1;
    }
    out.evaluations = runs.len() as u64;
    if out.evaluations < total && harness_errors.is_empty() {
        harness_errors.push(format!("only {} of {} runs were executed", out.evaluations, total));
    }
    harness_errors.truncate(10);
    out.harness_errors = harness_errors;
    out.distinct_histories = seen.len() as u64;
    out.distinct_nontrivial = seen_nt.len() as u64;
    out.wall_s = t0.elapsed().as_secs_f64();
    let _ = std::fs::remove_dir_all(&dir);
    Ok(out)
}

pub fn write_replay(dir: &Path, name: &str, f: &ReplayFile) -> Result<PathBuf, String> {
    std::fs::create_dir_all(dir).map_err(|e| e.to_string())?;
    let p = dir.join(name);
    std::fs::write(&p, f.render()).map_err(|e| e.to_string())?;
    Ok(p)
}


/// The op list of run `i` of a batch (executed in a forked process).
pub fn ops_of_run(cfg: &BatchCfg, i: u64, env: &mut Env) -> Result<(Vec<TOp>, String), String> {
    let sys_hist = if cfg.prop == Prop::C02 { gen::systematic_c02_histories(cfg.sys_max_n) } else { vec![] };
    let sys = SysPrefix { hist: sys_hist, variants: cfg.sys_variants };
    let pools = Pools::new(cfg.verif_seed);
    let scratch = env.dir.join("ops-of-run.out");
    let out = crate::fork::isolated(&scratch, std::time::Duration::from_secs(900), || {
        let r = run_index(cfg.prop, cfg.verif_seed, i, &pools, &sys, env);
        let mut t = format!("{}\n", r.swarm);
        for o in &r.ops {
            t.push_str(&o.to_text());
            t.push('\n');
        }
        t
    });
    match out {
        crate::fork::ForkOut::Ok(t) => {
            let mut it = t.lines();
            let swarm = it.next().unwrap_or("").to_string();
            let ops = it.map(|l| TOp::from_text(l).ok_or_else(|| format!("bad op: {}", l))).collect::<Result<Vec<_>, _>>()?;
            Ok((ops, swarm))
        }
        crate::fork::ForkOut::Died(d) => Err(d),
    }
}

/// Digest (everything observed: waveform hashes, return values) of a history executed in a forked process.
pub fn digest_of_ops(prop: Prop, ops: &[TOp], env: &mut Env) -> Result<String, String> {
    let scratch = env.dir.join("digest.out");
    let ops_v = ops.to_vec();
    match crate::fork::isolated(&scratch, std::time::Duration::from_secs(900), || {
        let r = run_ops(prop, &ops_v, env);
        format!("{:016x}:{:016x}:{}", r.trace_hash, r.digest, r.violation.map(|v| v.signature()).unwrap_or_default())
    }) {
        crate::fork::ForkOut::Ok(t) => Ok(t),
        crate::fork::ForkOut::Died(d) => Err(d),
    }
}
