//! W1/L1 batch driver: seeded runs sharded over worker threads, replay files, ddmin minimisation.

use std::collections::{BTreeMap, BTreeSet};
use std::path::{Path, PathBuf};
use std::time::Instant;

use crate::env::Env;
use crate::gen::{self, Gen, Pools};
use crate::json::J;
use crate::ops::TOp;
use crate::rng::{mix, Rng};
use crate::sim::{HarnessError, Prop, Sim, Stats, Stop, Violation};

pub struct RunResult {
    pub ops: Vec<TOp>,
    pub violation: Option<Violation>,
    pub harness: Option<String>,
    pub stats: Stats,
    pub trace_hash: u64,
    pub digest: u64,
    pub nontrivial: bool,
    pub swarm: String,
}

fn finish_run(mut sim: Sim, ops: Vec<TOp>, stop: Option<Stop>, swarm: String) -> RunResult {
    let mut violation = None;
    let mut harness = None;
    match stop {
        Some(Stop::Violation(v)) => violation = Some(v),
        Some(Stop::Harness(HarnessError(e))) => harness = Some(e),
        None => match sim.finish() {
            Err(Stop::Violation(v)) => violation = Some(v),
            Err(Stop::Harness(HarnessError(e))) => harness = Some(e),
            Ok(()) => {}
        },
    }
    RunResult { ops, violation, harness, stats: sim.stats.clone(), trace_hash: sim.trace_hash, digest: sim.digest, nontrivial: sim.nontrivial, swarm }
}

/// Execute an explicit history.
pub fn run_ops(prop: Prop, ops: &[TOp], env: &mut Env) -> RunResult {
    let mut sim = Sim::new(prop, env);
    let mut stop = None;
    let mut done = Vec::new();
    for op in ops {
        done.push(op.clone());
        if let Err(s) = sim.exec(op) {
            stop = Some(s);
            break;
        }
    }
    finish_run(sim, done, stop, "replay".into())
}

pub struct SysPrefix {
    pub hist: Vec<(usize, Vec<u8>)>,
    pub variants: usize,
}

impl SysPrefix {
    pub fn len(&self) -> usize {
        self.hist.len() * self.variants
    }
}

/// Run number `i` of a batch: the systematic prefix first, then seeded histories.
pub fn run_index(prop: Prop, verif_seed: u64, i: u64, pools: &Pools, sys: &SysPrefix, env: &mut Env) -> RunResult {
    if prop == Prop::C02 && (i as usize) < sys.len() {
        let k = i as usize;
        let (n, h) = &sys.hist[k % sys.hist.len()];
        let ops = gen::systematic_c02_ops(*n, h, k / sys.hist.len());
        let mut r = run_ops(prop, &ops, env);
        r.swarm = format!("systematic n={} hist={:?} variant={}", n, h, k / sys.hist.len());
        return r;
    }
    let seed = mix(&[verif_seed, prop as u64 + 0xC0, i]);
    let mut r = Rng::new(seed);
    let sw = gen::swarm(prop, &mut r, pools, env.corpus.len());
    let desc = sw.describe();
    let nops = sw.nops;
    let mut g = Gen::new(prop, r, sw);
    let mut sim = Sim::new(prop, env);
    let mut ops = Vec::with_capacity(nops);
    let mut stop = None;
    for _ in 0..nops {
        let op = g.next(&sim);
        ops.push(op.clone());
        if let Err(s) = sim.exec(&op) {
            stop = Some(s);
            break;
        }
    }
    finish_run(sim, ops, stop, desc)
}

// ---------------------------------------------------------------------------------------------
// replay files

pub struct ReplayFile {
    pub property: String,
    pub world: String,
    pub layer: String,
    pub verif_seed: u64,
    pub run: u64,
    pub swarm: String,
    pub signature: String,
    pub detail: String,
    pub body: Vec<String>,
}

impl ReplayFile {
    pub fn render(&self) -> String {
        let mut s = String::new();
        s.push_str("jbsim-replay v1\n");
        s.push_str(&format!("property {}\nworld {}\nlayer {}\nverif_seed {}\nrun {}\nswarm {}\nsignature {}\ndetail {}\nbody {}\n", self.property, self.world, self.layer, self.verif_seed, self.run, self.swarm, self.signature, self.detail.replace('\n', " "), self.body.len()));
        for l in &self.body {
            s.push_str(l);
            s.push('\n');
        }
        s.push_str("end\n");
        s
    }
    pub fn parse(text: &str) -> Result<ReplayFile, String> {
        let mut it = text.lines();
        if it.next() != Some("jbsim-replay v1") {
            return Err("not a jbsim replay file".into());
        }
        let mut f = ReplayFile { property: String::new(), world: String::new(), layer: String::new(), verif_seed: 0, run: 0, swarm: String::new(), signature: String::new(), detail: String::new(), body: vec![] };
        let mut nbody = None;
        for l in it.by_ref() {
            let (k, v) = l.split_once(' ').unwrap_or((l, ""));
            match k {
                "property" => f.property = v.to_string(),
                "world" => f.world = v.to_string(),
                "layer" => f.layer = v.to_string(),
                "verif_seed" => f.verif_seed = v.parse().map_err(|_| "bad verif_seed")?,
                "run" => f.run = v.parse().map_err(|_| "bad run")?,
                "swarm" => f.swarm = v.to_string(),
                "signature" => f.signature = v.to_string(),
                "detail" => f.detail = v.to_string(),
                "body" => {
                    nbody = Some(v.parse::<usize>().map_err(|_| "bad body count")?);
                    break;
                }
                _ => return Err(format!("unknown header line: {}", l)),
            }
        }
        let n = nbody.ok_or("missing body")?;
        for _ in 0..n {
            f.body.push(it.next().ok_or("truncated body")?.to_string());
        }
        if it.next() != Some("end") {
            return Err("missing end".into());
        }
        Ok(f)
    }
}

pub fn parse_ops(lines: &[String]) -> Result<Vec<TOp>, String> {
    lines.iter().map(|l| TOp::from_text(l).ok_or_else(|| format!("cannot parse op line: {}", l))).collect()
}

/// ddmin over the op list, keeping a candidate only if the same violation signature persists.
pub fn minimize(prop: Prop, ops: &[TOp], sig: &str, env: &mut Env, budget_s: f64) -> Vec<TOp> {
    let t0 = Instant::now();
    let still = |cand: &[TOp], env: &mut Env| -> bool {
        let r = run_ops(prop, cand, env);
        r.violation.map(|v| v.signature() == sig).unwrap_or(false)
    };
    let mut cur: Vec<TOp> = ops.to_vec();
    let mut n = 2usize;
    while cur.len() >= 2 && t0.elapsed().as_secs_f64() < budget_s {
        let chunk = cur.len().div_ceil(n);
        let mut reduced = false;
        let mut i = 0;
        while i < cur.len() {
            let end = (i + chunk).min(cur.len());
            let cand: Vec<TOp> = cur[..i].iter().chain(cur[end..].iter()).cloned().collect();
            if !cand.is_empty() && still(&cand, env) {
                cur = cand;
                n = n.saturating_sub(1).max(2);
                reduced = true;
                break;
            }
            i = end;
            if t0.elapsed().as_secs_f64() >= budget_s {
                break;
            }
        }
        if !reduced {
            if n >= cur.len() {
                break;
            }
            n = (n * 2).min(cur.len());
        }
    }
    // argument shrinking: merge all tasks into task 0, shorten utterances, default buffer sizes
    let mut try_replace = |cur: &mut Vec<TOp>, idx: usize, new: TOp, env: &mut Env| {
        if cur[idx] == new {
            return;
        }
        let mut cand = cur.clone();
        cand[idx] = new;
        if still(&cand, env) {
            *cur = cand;
        }
    };
    for idx in 0..cur.len() {
        if t0.elapsed().as_secs_f64() >= budget_s {
            break;
        }
        let mut o = cur[idx].clone();
        o.task = 0;
        try_replace(&mut cur, idx, o, env);
        use crate::ops::Op;
        let tk = cur[idx].task;
        match cur[idx].op.clone() {
            Op::Step { g, extra } if extra != 0 => try_replace(&mut cur, idx, TOp { task: tk, op: Op::Step { g, extra: 0 } }, env),
            Op::NewGen { e, g, utt } if utt.lines.len() > 1 => {
                for keep in [1usize, 2, utt.lines.len() / 2] {
                    if keep < utt.lines.len() {
                        let mut u = utt.clone();
                        u.lines.truncate(keep);
                        try_replace(&mut cur, idx, TOp { task: tk, op: Op::NewGen { e, g, utt: u } }, env);
                    }
                }
            }
            Op::Synth { e, utt, form } if utt.lines.len() > 1 => {
                for keep in [1usize, 2, utt.lines.len() / 2] {
                    if keep < utt.lines.len() {
                        let mut u = utt.clone();
                        u.lines.truncate(keep);
                        try_replace(&mut cur, idx, TOp { task: tk, op: Op::Synth { e, utt: u, form } }, env);
                    }
                }
            }
            _ => {}
        }
    }
    cur
}

// ---------------------------------------------------------------------------------------------
// batch

pub struct BatchCfg {
    pub prop: Prop,
    pub tier: String,
    pub verif_seed: u64,
    pub runs: u64,
    pub workers: usize,
    pub replay_dir: PathBuf,
    pub determinism_sample: u64,
    pub sys_max_n: usize,
    pub sys_variants: usize,
}

pub struct Found {
    pub run: u64,
    pub violation: Violation,
    pub ops: Vec<TOp>,
    pub swarm: String,
}

pub struct BatchOut {
    pub evaluations: u64,
    pub distinct_nontrivial: u64,
    pub distinct_histories: u64,
    pub stats: Stats,
    pub found: Vec<Found>,
    pub harness_errors: Vec<String>,
    pub samples: Vec<J>,
    pub wall_s: f64,
    pub determinism_pairs: u64,
    pub determinism_mismatches: u64,
    pub profiles: BTreeMap<String, u64>,
    pub sys_len: u64,
}

struct Summary {
    i: u64,
    trace_hash: u64,
    digest: u64,
    nontrivial: bool,
    stats: Stats,
    found: Option<Found>,
    harness: Option<String>,
    sample: Option<J>,
    profile: String,
}

pub fn run_batch(cfg: &BatchCfg) -> Result<BatchOut, String> {
    let t0 = Instant::now();
    let workers = cfg.workers.max(1);
    let sys_hist = if cfg.prop == Prop::C02 { gen::systematic_c02_histories(cfg.sys_max_n) } else { vec![] };
    let sys_variants = cfg.sys_variants;
    let sys_len = (sys_hist.len() * sys_variants) as u64;
    let total = cfg.runs + sys_len;
    let mut handles = Vec::new();
    for w in 0..workers {
        let prop = cfg.prop;
        let seed = cfg.verif_seed;
        let sys_hist = sys_hist.clone();
        handles.push(std::thread::Builder::new().stack_size(64 << 20).spawn(move || -> Result<Vec<Summary>, String> {
            let mut env = Env::new(&format!("w{}", w))?;
            let pools = Pools::new(seed);
            let sys = SysPrefix { hist: sys_hist, variants: sys_variants };
            let mut out = Vec::new();
            let mut i = w as u64;
            while i < total {
                let t_run = Instant::now();
                let r = run_index(prop, seed, i, &pools, &sys, &mut env);
                if std::env::var_os("JBSIM_SLOW").is_some() && t_run.elapsed().as_millis() > 50 {
                    eprintln!("SLOW run {} {}ms {} ops={} samples={}", i, t_run.elapsed().as_millis(), r.swarm, r.ops.len(), r.stats.samples_compared);
                }
                let sample = if i % (total / 6).max(1) == 0 || (i >= sys_len && i < sys_len + 2) {
                    Some(J::obj().set("run", J::u(i)).set("swarm", J::s(&r.swarm)).set("ops", J::strs(r.ops.iter().take(16).map(|o| o.to_text()))).set("ops_total", J::u(r.ops.len() as u64)))
                } else {
                    None
                };
                let profile = r.swarm.split_whitespace().next().unwrap_or("").to_string();
                out.push(Summary {
                    i,
                    trace_hash: r.trace_hash,
                    digest: r.digest,
                    nontrivial: r.nontrivial,
                    stats: r.stats,
                    found: r.violation.map(|v| Found { run: i, violation: v, ops: r.ops.clone(), swarm: r.swarm.clone() }),
                    harness: r.harness,
                    sample,
                    profile,
                });
                i += workers as u64;
            }
            Ok(out)
        }).map_err(|e| e.to_string())?);
    }
    let mut all: Vec<Summary> = Vec::new();
    for h in handles {
        match h.join() {
            Ok(Ok(v)) => all.extend(v),
            Ok(Err(e)) => return Err(e),
            Err(_) => return Err("worker thread panicked (harness bug)".into()),
        }
    }
    all.sort_by_key(|s| s.i);

    // determinism: re-run a sample on a fresh thread with a fresh environment and compare digests
    let mut pairs = 0u64;
    let mut mism = 0u64;
    if cfg.determinism_sample > 0 {
        let mut r = Rng::new(mix(&[cfg.verif_seed, 0xde7e]));
        let mut idx: BTreeSet<u64> = BTreeSet::new();
        while (idx.len() as u64) < cfg.determinism_sample.min(total) {
            idx.insert(r.below(total as usize) as u64);
        }
        let prop = cfg.prop;
        let seed = cfg.verif_seed;
        let sys_hist2 = sys_hist.clone();
        let idxv: Vec<u64> = idx.iter().copied().collect();
        let again = std::thread::Builder::new()
            .stack_size(64 << 20)
            .spawn(move || -> Result<Vec<(u64, u64, u64)>, String> {
                let mut env = Env::new("det")?;
                let pools = Pools::new(seed);
                let sys = SysPrefix { hist: sys_hist2, variants: sys_variants };
                // reverse order on purpose: a different cache / allocation history
                Ok(idxv.iter().rev().map(|i| {
                    let r = run_index(prop, seed, *i, &pools, &sys, &mut env);
                    (*i, r.trace_hash, r.digest)
                }).collect())
            })
            .map_err(|e| e.to_string())?
            .join()
            .map_err(|_| "determinism thread panicked".to_string())??;
        for (i, th, dg) in again {
            let s = &all[i as usize];
            pairs += 1;
            if s.trace_hash != th || s.digest != dg {
                mism += 1;
            }
        }
    }

    let mut out = BatchOut {
        evaluations: all.len() as u64,
        distinct_nontrivial: 0,
        distinct_histories: 0,
        stats: Stats::default(),
        found: vec![],
        harness_errors: vec![],
        samples: vec![],
        wall_s: 0.0,
        determinism_pairs: pairs,
        determinism_mismatches: mism,
        profiles: BTreeMap::new(),
        sys_len,
    };
    let mut seen = BTreeSet::new();
    let mut seen_nt = BTreeSet::new();
    for s in all {
        seen.insert(s.trace_hash);
        if s.nontrivial {
            seen_nt.insert(s.trace_hash);
        }
        out.stats.merge(&s.stats);
        *out.profiles.entry(s.profile).or_insert(0) += 1;
        if let Some(f) = s.found {
            out.found.push(f);
        }
        if let Some(h) = s.harness {
            if out.harness_errors.len() < 10 {
                out.harness_errors.push(format!("run {}: {}", s.i, h));
            }
        }
        if let Some(j) = s.sample {
            if out.samples.len() < 8 {
                out.samples.push(j);
            }
        }
    }
    out.distinct_histories = seen.len() as u64;
    out.distinct_nontrivial = seen_nt.len() as u64;
    out.wall_s = t0.elapsed().as_secs_f64();
    Ok(out)
}

pub fn write_replay(dir: &Path, name: &str, f: &ReplayFile) -> Result<PathBuf, String> {
    std::fs::create_dir_all(dir).map_err(|e| e.to_string())?;
    let p = dir.join(name);
    std::fs::write(&p, f.render()).map_err(|e| e.to_string())?;
    Ok(p)
}
