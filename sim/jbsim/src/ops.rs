//! The op language of world W1 ("callers") and its text form (replay files).

use crate::voicegen::VoiceSpec;

#[derive(Clone, Debug, PartialEq, Eq, PartialOrd, Ord, Hash)]
pub enum VoiceRef {
    Bundled,
    /// bundled voice with its PDF entries perturbed (metadata-compatible)
    Perturbed(u32),
    Gen(VoiceSpec),
}

impl VoiceRef {
    pub fn to_text(&self) -> String {
        match self {
            VoiceRef::Bundled => "bundled".into(),
            VoiceRef::Perturbed(k) => format!("perturbed:{}", k),
            VoiceRef::Gen(s) => format!("gen:{}", s.to_text()),
        }
    }
    pub fn from_text(s: &str) -> Option<VoiceRef> {
        if s == "bundled" {
            Some(VoiceRef::Bundled)
        } else if let Some(k) = s.strip_prefix("perturbed:") {
            Some(VoiceRef::Perturbed(k.parse().ok()?))
        } else {
            Some(VoiceRef::Gen(VoiceSpec::from_text(s.strip_prefix("gen:")?)?))
        }
    }
}

#[derive(Clone, Debug, PartialEq)]
pub struct Utt {
    /// corpus line indices
    pub lines: Vec<u32>,
    /// 0 = no time stamps; otherwise every label gets `timed` x 10^4 (100 ns units) of duration
    pub timed: u32,
}

impl Utt {
    pub fn to_text(&self) -> String {
        let l: Vec<String> = self.lines.iter().map(|x| x.to_string()).collect();
        format!("{}@{}", if l.is_empty() { "-".to_string() } else { l.join(".") }, self.timed)
    }
    pub fn from_text(s: &str) -> Option<Utt> {
        let (l, t) = s.split_once('@')?;
        let lines = if l == "-" { vec![] } else { l.split('.').map(|x| x.parse().ok()).collect::<Option<Vec<u32>>>()? };
        Some(Utt { lines, timed: t.parse().ok()? })
    }
}

#[derive(Clone, Copy, Debug, PartialEq, Eq)]
pub enum Form {
    Slice,
    Array,
    VecString,
    VecLabel,
    SliceBlank,
}

impl Form {
    pub const ALL: [Form; 5] = [Form::Slice, Form::Array, Form::VecString, Form::VecLabel, Form::SliceBlank];
    pub fn name(&self) -> &'static str {
        match self {
            Form::Slice => "slice",
            Form::Array => "array",
            Form::VecString => "vecstring",
            Form::VecLabel => "veclabel",
            Form::SliceBlank => "sliceblank",
        }
    }
    pub fn from_name(s: &str) -> Option<Form> {
        Form::ALL.iter().copied().find(|f| f.name() == s)
    }
}

#[derive(Clone, Copy, Debug, PartialEq)]
pub enum Setter {
    SamplingFrequency(usize),
    Fperiod(usize),
    Volume(f64),
    Msd(usize, f64),
    GvWeight(usize, f64),
    Align(bool),
    Speed(f64),
    Alpha(f64),
    Beta(f64),
    HalfTone(f64),
}

fn fx(x: f64) -> String {
    format!("{:016x}", x.to_bits())
}
fn xf(s: &str) -> Option<f64> {
    u64::from_str_radix(s, 16).ok().map(f64::from_bits)
}

impl Setter {
    pub fn name(&self) -> &'static str {
        match self {
            Setter::SamplingFrequency(_) => "sampling_frequency",
            Setter::Fperiod(_) => "fperiod",
            Setter::Volume(_) => "volume",
            Setter::Msd(..) => "msd_threshold",
            Setter::GvWeight(..) => "gv_weight",
            Setter::Align(_) => "alignment",
            Setter::Speed(_) => "speed",
            Setter::Alpha(_) => "alpha",
            Setter::Beta(_) => "beta",
            Setter::HalfTone(_) => "half_tone",
        }
    }
    pub fn to_text(&self) -> String {
        match self {
            Setter::SamplingFrequency(i) => format!("sampling_frequency {}", i),
            Setter::Fperiod(i) => format!("fperiod {}", i),
            Setter::Volume(f) => format!("volume {} #{:e}", fx(*f), f),
            Setter::Msd(s, f) => format!("msd_threshold {} {} #{:e}", s, fx(*f), f),
            Setter::GvWeight(s, f) => format!("gv_weight {} {} #{:e}", s, fx(*f), f),
            Setter::Align(b) => format!("alignment {}", *b as u8),
            Setter::Speed(f) => format!("speed {} #{:e}", fx(*f), f),
            Setter::Alpha(f) => format!("alpha {} #{:e}", fx(*f), f),
            Setter::Beta(f) => format!("beta {} #{:e}", fx(*f), f),
            Setter::HalfTone(f) => format!("half_tone {} #{:e}", fx(*f), f),
        }
    }
    pub fn from_words(w: &[&str]) -> Option<Setter> {
        Some(match *w.first()? {
            "sampling_frequency" => Setter::SamplingFrequency(w.get(1)?.parse().ok()?),
            "fperiod" => Setter::Fperiod(w.get(1)?.parse().ok()?),
            "volume" => Setter::Volume(xf(w.get(1)?)?),
            "msd_threshold" => Setter::Msd(w.get(1)?.parse().ok()?, xf(w.get(2)?)?),
            "gv_weight" => Setter::GvWeight(w.get(1)?.parse().ok()?, xf(w.get(2)?)?),
            "alignment" => Setter::Align(*w.get(1)? == "1"),
            "speed" => Setter::Speed(xf(w.get(1)?)?),
            "alpha" => Setter::Alpha(xf(w.get(1)?)?),
            "beta" => Setter::Beta(xf(w.get(1)?)?),
            "half_tone" => Setter::HalfTone(xf(w.get(1)?)?),
            _ => return None,
        })
    }
}

#[derive(Clone, Copy, Debug, PartialEq, Eq, PartialOrd, Ord)]
pub enum Which {
    Dur,
    Par(usize),
    Gv(usize),
}

impl Which {
    pub fn to_text(&self) -> String {
        match self {
            Which::Dur => "dur".into(),
            Which::Par(i) => format!("par{}", i),
            Which::Gv(i) => format!("gv{}", i),
        }
    }
    pub fn from_text(s: &str) -> Option<Which> {
        if s == "dur" {
            Some(Which::Dur)
        } else if let Some(i) = s.strip_prefix("par") {
            Some(Which::Par(i.parse().ok()?))
        } else {
            Some(Which::Gv(s.strip_prefix("gv")?.parse().ok()?))
        }
    }
}

/// One metadata field of a voice (C19: voices differing in exactly one of these cannot be combined).
#[derive(Clone, Copy, Debug, PartialEq, Eq)]
pub enum MetaField {
    SamplingRate,
    FramePeriod,
    NumStates,
    NumStreams,
    StreamType,
    VectorLength(usize),
    NumWindows(usize),
    IsMsd(usize),
    UseGv(usize),
    Option(usize),
}

impl MetaField {
    pub fn to_text(&self) -> String {
        match self {
            MetaField::SamplingRate => "sampling_rate".into(),
            MetaField::FramePeriod => "frame_period".into(),
            MetaField::NumStates => "num_states".into(),
            MetaField::NumStreams => "num_streams".into(),
            MetaField::StreamType => "stream_type".into(),
            MetaField::VectorLength(i) => format!("vector_length:{}", i),
            MetaField::NumWindows(i) => format!("num_windows:{}", i),
            MetaField::IsMsd(i) => format!("is_msd:{}", i),
            MetaField::UseGv(i) => format!("use_gv:{}", i),
            MetaField::Option(i) => format!("option:{}", i),
        }
    }
    pub fn from_text(s: &str) -> Option<MetaField> {
        let (k, i) = match s.split_once(':') {
            Some((k, i)) => (k, i.parse::<usize>().ok()),
            None => (s, None),
        };
        Some(match k {
            "sampling_rate" => MetaField::SamplingRate,
            "frame_period" => MetaField::FramePeriod,
            "num_states" => MetaField::NumStates,
            "num_streams" => MetaField::NumStreams,
            "stream_type" => MetaField::StreamType,
            "vector_length" => MetaField::VectorLength(i?),
            "num_windows" => MetaField::NumWindows(i?),
            "is_msd" => MetaField::IsMsd(i?),
            "use_gv" => MetaField::UseGv(i?),
            "option" => MetaField::Option(i?),
            _ => return None,
        })
    }
}

#[derive(Clone, Debug, PartialEq)]
pub enum Op {
    /// build an engine in slot `e` from voices; `via_files` = go through `Engine::load(paths)`
    Load { e: usize, voices: Vec<VoiceRef>, via_files: bool },
    CloneEngine { src: usize, dst: usize },
    /// `dst.clone_from(&src)` on an existing engine (falls back to a plain clone if `dst` is empty)
    CloneFrom { src: usize, dst: usize },
    /// `dst.condition.clone_from(&src.condition)` (only between engines over the same voice set)
    CloneCond { src: usize, dst: usize },
    /// load another voice set into an existing engine: `condition.load_model(&vs); voices = vs`
    Reload { e: usize, voices: Vec<VoiceRef> },
    /// a *failing* `condition.load_model`: the engine's own voices with a malformed spectrum option appended
    /// (kind 0 `GAMMA=two`, 1 `LN_GAIN=yes`, 2 `ALPHA=0,55`). Afterwards every setting must be either what
    /// it was before or the default a successful load would have installed - never anything else
    ReloadBad { e: usize, kind: u8 },
    DropEngine { e: usize },
    /// take the engine apart and put it together again from its public parts:
    /// how 0: `Engine::new(e.voices.clone(), e.condition.clone())` (the condition was customised
    /// *before* `Engine::new`, as a front end that maps command-line options onto a Condition does);
    /// how 1: the condition moved out with `mem::take` and handed to `Engine::new`; how 2: `e.condition = e.condition.clone()`;
    /// how 3: a new `VoiceSet` over deep copies of the voices (equal content, other allocations, nothing
    /// shared; the slot keeps those `Arc`s); how 4: a new `VoiceSet` over the harness's cached `Arc`s
    /// (equal voices share one allocation)
    Rebuild { e: usize, how: u8 },
    /// the caller keeps the `Arc<Voice>`s of an engine it built (see `Rebuild` how 3), drops the engine,
    /// overwrites the voices in place through `Arc::get_mut` with other voices of the same metadata, and
    /// builds the engine again: other content at the same addresses
    ReplaceInPlace { e: usize, voices: Vec<VoiceRef> },
    Set { e: usize, s: Setter },
    SetW { e: usize, which: Which, w: Vec<f64> },
    /// C19: VoiceSet::new(voices) where voice `mutate.0` has metadata field `mutate.1` changed
    /// `mutate.2` selects how the field is changed (0 grow/append/flip, 1 shrink/remove, 2 alter in place)
    VsNew { voices: Vec<VoiceRef>, mutate: Option<(usize, MetaField, u8)>, mutate2: Option<(usize, MetaField, u8)> },
    Synth { e: usize, utt: Utt, form: Form },
    /// a *failing* call: label text that is not well-formed
    SynthBad { e: usize, utt: Utt, bad_at: usize, bad_kind: u8 },
    NewGen { e: usize, g: usize, utt: Utt },
    /// step with a buffer of `fperiod + extra` samples (extra clipped to 2*fperiod)
    Step { g: usize, extra: usize },
    Query { g: usize },
    Finish { g: usize },
    /// step with fperiod-sized buffers until the generator is exhausted (at most `max` steps)
    Drain { g: usize, max: usize },
    DropGen { g: usize },
    /// L2a: put the live generator `g` (after however many steps) into mailbox `b` for another thread ...
    GiveGen { g: usize, b: usize },
    /// ... which takes it out (waiting at yield points until it is there or its giver has finished) and goes on pulling it
    TakeGen { g: usize, b: usize },
    /// forget every engine, generator and recorded waveform: the boundary between two runs that were
    /// executed in the same process (group replay of a violation that needs its predecessors' residue)
    Reset,
}

#[derive(Clone, Debug, PartialEq)]
pub struct TOp {
    pub task: u8,
    pub op: Op,
}

fn vrefs(v: &[VoiceRef]) -> String {
    if v.is_empty() {
        "-".into()
    } else {
        v.iter().map(|x| x.to_text()).collect::<Vec<_>>().join(";")
    }
}
fn parse_vrefs(s: &str) -> Option<Vec<VoiceRef>> {
    if s == "-" {
        return Some(vec![]);
    }
    s.split(';').map(VoiceRef::from_text).collect()
}

impl TOp {
    pub fn to_text(&self) -> String {
        let t = self.task;
        match &self.op {
            Op::Load { e, voices, via_files } => format!("t{} load e{} {} {}", t, e, *via_files as u8, vrefs(voices)),
            Op::CloneEngine { src, dst } => format!("t{} clone e{} e{}", t, src, dst),
            Op::CloneFrom { src, dst } => format!("t{} clonefrom e{} e{}", t, src, dst),
            Op::CloneCond { src, dst } => format!("t{} clonecond e{} e{}", t, src, dst),
            Op::Reload { e, voices } => format!("t{} reload e{} {}", t, e, vrefs(voices)),
            Op::ReloadBad { e, kind } => format!("t{} reloadbad e{} {}", t, e, kind),
            Op::DropEngine { e } => format!("t{} dropengine e{}", t, e),
            Op::Rebuild { e, how } => format!("t{} rebuild e{} {}", t, e, how),
            Op::ReplaceInPlace { e, voices } => format!("t{} inplace e{} {}", t, e, vrefs(voices)),
            Op::Set { e, s } => format!("t{} set e{} {}", t, e, s.to_text()),
            Op::SetW { e, which, w } => {
                let ws: Vec<String> = w.iter().map(|x| fx(*x)).collect();
                let hs: Vec<String> = w.iter().map(|x| format!("{}", x)).collect();
                format!("t{} setw e{} {} {} #{}", t, e, which.to_text(), if ws.is_empty() { "-".into() } else { ws.join(",") }, hs.join(","))
            }
            Op::VsNew { voices, mutate, mutate2 } => format!(
                "t{} vsnew {}{} {}",
                t,
                match mutate {
                    None => "none".to_string(),
                    Some((p, f, v)) => format!("{}/{}/{}", p, f.to_text(), v),
                },
                match mutate2 {
                    None => String::new(),
                    Some((p, f, v)) => format!("+{}/{}/{}", p, f.to_text(), v),
                },
                vrefs(voices)
            ),
            Op::Synth { e, utt, form } => format!("t{} synth e{} {} {}", t, e, form.name(), utt.to_text()),
            Op::SynthBad { e, utt, bad_at, bad_kind } => format!("t{} synthbad e{} {} {} {}", t, e, bad_at, bad_kind, utt.to_text()),
            Op::NewGen { e, g, utt } => format!("t{} newgen e{} g{} {}", t, e, g, utt.to_text()),
            Op::Step { g, extra } => format!("t{} step g{} {}", t, g, extra),
            Op::Query { g } => format!("t{} query g{}", t, g),
            Op::Finish { g } => format!("t{} finish g{}", t, g),
            Op::Drain { g, max } => format!("t{} drain g{} {}", t, g, max),
            Op::DropGen { g } => format!("t{} dropgen g{}", t, g),
            Op::GiveGen { g, b } => format!("t{} givegen g{} {}", t, g, b),
            Op::TakeGen { g, b } => format!("t{} takegen g{} {}", t, g, b),
            Op::Reset => format!("t{} reset", t),
        }
    }

    pub fn from_text(line: &str) -> Option<TOp> {
        let line = line.split(" #").next()?;
        let w: Vec<&str> = line.split_whitespace().collect();
        let task: u8 = w.first()?.strip_prefix('t')?.parse().ok()?;
        let slot = |s: &str, p: char| -> Option<usize> { s.strip_prefix(p)?.parse().ok() };
        let op = match *w.get(1)? {
            "load" => Op::Load { e: slot(w.get(2)?, 'e')?, via_files: *w.get(3)? == "1", voices: parse_vrefs(w.get(4)?)? },
            "clone" => Op::CloneEngine { src: slot(w.get(2)?, 'e')?, dst: slot(w.get(3)?, 'e')? },
            "clonefrom" => Op::CloneFrom { src: slot(w.get(2)?, 'e')?, dst: slot(w.get(3)?, 'e')? },
            "clonecond" => Op::CloneCond { src: slot(w.get(2)?, 'e')?, dst: slot(w.get(3)?, 'e')? },
            "reload" => Op::Reload { e: slot(w.get(2)?, 'e')?, voices: parse_vrefs(w.get(3)?)? },
            "reloadbad" => Op::ReloadBad { e: slot(w.get(2)?, 'e')?, kind: w.get(3)?.parse().ok()? },
            "dropengine" => Op::DropEngine { e: slot(w.get(2)?, 'e')? },
            "rebuild" => Op::Rebuild { e: slot(w.get(2)?, 'e')?, how: w.get(3)?.parse().ok()? },
            "inplace" => Op::ReplaceInPlace { e: slot(w.get(2)?, 'e')?, voices: parse_vrefs(w.get(3)?)? },
            "set" => Op::Set { e: slot(w.get(2)?, 'e')?, s: Setter::from_words(&w[3..])? },
            "setw" => {
                let ws = *w.get(4)?;
                let v = if ws == "-" { vec![] } else { ws.split(',').map(xf).collect::<Option<Vec<f64>>>()? };
                Op::SetW { e: slot(w.get(2)?, 'e')?, which: Which::from_text(w.get(3)?)?, w: v }
            }
            "vsnew" => {
                let parse_one = |m: &str| -> Option<(usize, MetaField, u8)> {
                    let mut it = m.split('/');
                    let p = it.next()?;
                    let f = it.next()?;
                    let v = it.next().and_then(|x| x.parse().ok()).unwrap_or(0u8);
                    Some((p.parse().ok()?, MetaField::from_text(f)?, v))
                };
                let m = *w.get(2)?;
                let (m1, m2) = match m.split_once('+') {
                    Some((a, b)) => (a, Some(b)),
                    None => (m, None),
                };
                let mutate = if m1 == "none" { None } else { Some(parse_one(m1)?) };
                let mutate2 = match m2 {
                    Some(b) => Some(parse_one(b)?),
                    None => None,
                };
                Op::VsNew { voices: parse_vrefs(w.get(3)?)?, mutate, mutate2 }
            }
            "synth" => Op::Synth { e: slot(w.get(2)?, 'e')?, form: Form::from_name(w.get(3)?)?, utt: Utt::from_text(w.get(4)?)? },
            "synthbad" => Op::SynthBad {
                e: slot(w.get(2)?, 'e')?,
                bad_at: w.get(3)?.parse().ok()?,
                bad_kind: w.get(4)?.parse().ok()?,
                utt: Utt::from_text(w.get(5)?)?,
            },
            "newgen" => Op::NewGen { e: slot(w.get(2)?, 'e')?, g: slot(w.get(3)?, 'g')?, utt: Utt::from_text(w.get(4)?)? },
            "step" => Op::Step { g: slot(w.get(2)?, 'g')?, extra: w.get(3)?.parse().ok()? },
            "query" => Op::Query { g: slot(w.get(2)?, 'g')? },
            "finish" => Op::Finish { g: slot(w.get(2)?, 'g')? },
            "drain" => Op::Drain { g: slot(w.get(2)?, 'g')?, max: w.get(3)?.parse().ok()? },
            "dropgen" => Op::DropGen { g: slot(w.get(2)?, 'g')? },
            "givegen" => Op::GiveGen { g: slot(w.get(2)?, 'g')?, b: w.get(3)?.parse().ok()? },
            "takegen" => Op::TakeGen { g: slot(w.get(2)?, 'g')?, b: w.get(3)?.parse().ok()? },
            "reset" => Op::Reset,
            _ => return None,
        };
        Some(TOp { task, op })
    }

    pub fn kind(&self) -> &'static str {
        match &self.op {
            Op::Load { .. } => "load",
            Op::CloneEngine { .. } => "clone",
            Op::CloneFrom { .. } => "clonefrom",
            Op::CloneCond { .. } => "clonecond",
            Op::Reload { .. } => "reload",
            Op::ReloadBad { .. } => "reloadbad",
            Op::DropEngine { .. } => "dropengine",
            Op::Rebuild { .. } => "rebuild",
            Op::ReplaceInPlace { .. } => "inplace",
            Op::Set { .. } => "set",
            Op::SetW { .. } => "setw",
            Op::VsNew { .. } => "vsnew",
            Op::Synth { .. } => "synth",
            Op::SynthBad { .. } => "synthbad",
            Op::NewGen { .. } => "newgen",
            Op::Step { .. } => "step",
            Op::Query { .. } => "query",
            Op::Finish { .. } => "finish",
            Op::Drain { .. } => "drain",
            Op::DropGen { .. } => "dropgen",
            Op::GiveGen { .. } => "givegen",
            Op::TakeGen { .. } => "takegen",
            Op::Reset => "reset",
        }
    }
}
