//! Process isolation for single runs: `fork()` without `exec`, so a run starts from the pristine
//! image of its (single-threaded, jbonsai-free) parent and whatever it leaves behind in statics or
//! thread-locals of the code under test dies with it. Used for every W1 run, every L2a plan, every
//! fresh-process reference and every minimisation candidate.

use std::path::Path;
use std::time::{Duration, Instant};

extern "C" {
    fn fork() -> i32;
    fn waitpid(pid: i32, status: *mut i32, options: i32) -> i32;
    fn _exit(code: i32) -> !;
    fn kill(pid: i32, sig: i32) -> i32;
    fn setpgid(pid: i32, pgid: i32) -> i32;
}

/// Put the calling process into its own process group (so a watchdog can kill it with its children).
pub fn own_process_group() {
    unsafe {
        setpgid(0, 0);
    }
}

/// Kill a whole process group.
pub fn kill_group(pgid: u32) {
    unsafe {
        kill(-(pgid as i32), 9);
    }
}

pub enum ForkOut {
    Ok(String),
    /// the child did not exit normally: (description)
    Died(String),
}

/// Run `f` in a forked child; its returned string comes back through `scratch`.
/// Must only be called from a single-threaded process.
pub fn isolated(scratch: &Path, timeout: Duration, f: impl FnOnce() -> String) -> ForkOut {
    let _ = std::fs::remove_file(scratch);
    // make sure nothing buffered is duplicated into the child
    use std::io::Write;
    let _ = std::io::stdout().flush();
    let pid = unsafe { fork() };
    if pid < 0 {
        return ForkOut::Died("fork failed".into());
    }
    if pid == 0 {
        let r = std::panic::catch_unwind(std::panic::AssertUnwindSafe(f));
        let code = match r {
            Ok(s) => {
                if std::fs::write(scratch, s).is_ok() {
                    0
                } else {
                    3
                }
            }
            Err(_) => 4,
        };
        unsafe { _exit(code) }
    }
    let t0 = Instant::now();
    let mut status: i32 = 0;
    if timeout.as_secs() >= 3600 {
        // no per-run timeout requested: block (a hang is caught by the batch parent's watchdog,
        // which kills this whole process group)
        let r = unsafe { waitpid(pid, &mut status as *mut i32, 0) };
        if r != pid {
            return ForkOut::Died("waitpid failed".into());
        }
    } else {
        let mut nap = 20u64;
        loop {
            let r = unsafe { waitpid(pid, &mut status as *mut i32, 1) }; // WNOHANG
            if r == pid {
                break;
            }
            if r < 0 {
                return ForkOut::Died("waitpid failed".into());
            }
            if t0.elapsed() > timeout {
                unsafe {
                    kill(pid, 9);
                    waitpid(pid, &mut status as *mut i32, 0);
                }
                return ForkOut::Died(format!("timeout after {} s", timeout.as_secs()));
            }
            std::thread::sleep(Duration::from_micros(nap));
            nap = (nap * 2).min(2000);
        }
    }
    let exited = (status & 0x7f) == 0;
    if exited {
        let code = (status >> 8) & 0xff;
        if code == 0 {
            match std::fs::read_to_string(scratch) {
                Ok(s) => ForkOut::Ok(s),
                Err(e) => ForkOut::Died(format!("no result file: {}", e)),
            }
        } else {
            ForkOut::Died(format!("exit code {}{}", code, if code == 4 { " (harness panic in the isolated run)" } else { "" }))
        }
    } else {
        ForkOut::Died(format!("killed by signal {}", status & 0x7f))
    }
}
