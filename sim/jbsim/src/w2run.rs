//! W2 driver: parent (sharding, abort/hang attribution, aggregation), worker and single-case child.

use std::collections::{BTreeMap, BTreeSet};
use std::io::Write;
use std::os::unix::io::AsRawFd;
use std::os::unix::process::ExitStatusExt;
use std::path::{Path, PathBuf};
use std::process::{Child, Command, Stdio};
use std::time::{Duration, Instant};

use crate::env::Env;
use crate::json::J;
use crate::ops::VoiceRef;
use crate::rng::hash_bytes;
use crate::runner::ReplayFile;
use crate::w2::*;
use crate::{seed_from, Args, Known};

const HANG_S: u64 = 30;
const HANG_CONFIRM_S: u64 = 90;

fn budget_for(len: usize) -> usize {
    64 * len + (64 << 20)
}

fn doubles_default(tier: &str) -> u64 {
    if tier == "thorough" {
        2_000_000
    } else {
        400_000
    }
}

fn space(args: &Args, env: &mut Env) -> Result<CaseSpace, String> {
    let tier = args.get("tier", "quick");
    let seed = seed_from(args);
    let bases = load_bases(env, &tier)?;
    Ok(CaseSpace::new(bases, seed, tier == "thorough", args.num("doubles", doubles_default(&tier))))
}

// ---------------------------------------------------------------------------------------------
// worker

pub fn cmd_worker(args: &Args) -> i32 {
    let shard = args.num("shard", 0);
    let of = args.num("of", 1).max(1);
    let start = args.num("start", 0);
    let mut env = match Env::new(&format!("w2-{}", shard)) {
        Ok(e) => e,
        Err(e) => {
            eprintln!("worker: {}", e);
            return 2;
        }
    };
    let sp = match space(args, &mut env) {
        Ok(s) => s,
        Err(e) => {
            eprintln!("worker: {}", e);
            return 2;
        }
    };
    let out_path = args.get("out", "");
    let status_path = args.get("status", "");
    let marker_path = args.get("marker", "");
    let mut out = match std::fs::OpenOptions::new().create(true).append(true).open(&out_path) {
        Ok(f) => f,
        Err(e) => {
            eprintln!("worker: open {}: {}", out_path, e);
            return 2;
        }
    };
    let status = std::fs::OpenOptions::new().create(true).write(true).truncate(true).open(&status_path).unwrap();
    let marker = std::fs::OpenOptions::new().create(true).write(true).truncate(true).open(&marker_path).unwrap();
    crate::alloc::set_marker_fd(marker.as_raw_fd());
    let file = env.dir.join("case.htsvoice");
    let dir = env.dir.join("case.dir");
    let _ = std::fs::create_dir_all(&dir);
    let total = sp.len();
    let limit = args.num("limit", total).min(total);
    let mut idx = start;
    while idx % of != shard {
        idx += 1;
    }
    use std::os::unix::fs::FileExt;
    while idx < limit {
        let _ = status.write_at(format!("{:>20}\n", idx).as_bytes(), 0);
        let c = sp.case(idx);
        let mut hash_seed_override: Option<u64> = None;
        let bytes = sp.bytes_of(&c);
        let changed = bytes != sp.bases[c.base].bytes || c.faults.iter().any(|f| matches!(f, Fault::Io { .. }));
        let t_case = Instant::now();
        let (mut v, mut peak) = exec_case(&file, &dir, &bytes, &c, budget_for(bytes.len()) + if c.multi != 0 { 64 * sp.bases[c.base].bytes.len() } else { 0 }, Some(&sp.bases[c.base].bytes));
        if std::env::var_os("JBSIM_SLOW").is_some() && t_case.elapsed().as_millis() > 100 {
            eprintln!("SLOW case {} {}ms kind={} bytes={}", idx, t_case.elapsed().as_millis(), c.kind(), bytes.len());
        }
        // two or more faults in the header: which bad entry is met first depends on the iteration order of
        // the header's hash maps, so explore a few more hash seeds and keep the worst outcome
        let header_faults = c.faults.iter().filter(|f| matches!(f, Fault::Splice { start, .. } if *start < sp.bases[c.base].map.data_start)).count();
        if header_faults >= 2 && !matches!(v, Verdict::Panic(_)) {
            for k in 1..4u64 {
                let mut c2 = c.clone();
                c2.hash_seed = c.hash_seed.wrapping_add(k.wrapping_mul(0x9E37_79B9_7F4A_7C15));
                let (v2, p2) = exec_case(&file, &dir, &bytes, &c2, budget_for(bytes.len()) + if c.multi != 0 { 64 * sp.bases[c.base].bytes.len() } else { 0 }, Some(&sp.bases[c.base].bytes));
                peak = peak.max(p2);
                if matches!(v2, Verdict::Panic(_)) {
                    v = v2;
                    hash_seed_override = Some(c2.hash_seed);
                    break;
                }
            }
        }
        let (vs, class) = match &v {
            Verdict::Ok => ("ok", String::new()),
            Verdict::Err(k) => ("err", k.clone()),
            Verdict::Panic(c) => ("panic", c.replace(['\t', '\n'], " ")),
        };
        let text: String = c.faults.iter().map(|f| f.to_text()).collect::<Vec<_>>().join(";");
        let h = hash_bytes(format!("{}|{}", c.base, text).as_bytes());
        let _ = writeln!(out, "{}\t{}\t{}\t{}\t{}\t{}\t{:x}\t{}\t{}", idx, c.base, c.kind(), vs, class, peak, h, changed as u8, hash_seed_override.map(|x| x.to_string()).unwrap_or_default());
        idx += of;
    }
    let _ = status.write_at(format!("{:>20}\n", "done").as_bytes(), 0);
    0
}

// ---------------------------------------------------------------------------------------------
// single case in a child process (confirmation and replay)

/// exit codes: 0 loader returned (Ok/Err), 1 panic (class on stdout), abnormal termination = abort
pub fn cmd_exec_file(args: &Args) -> i32 {
    let Some(path) = args.pos.get(1) else { return 2 };
    let text = match std::fs::read_to_string(path) {
        Ok(t) => t,
        Err(_) => return 2,
    };
    let rf = match ReplayFile::parse(&text) {
        Ok(f) => f,
        Err(_) => return 2,
    };
    let mut env = match Env::new("w2exec") {
        Ok(e) => e,
        Err(_) => return 2,
    };
    let Some((c, bytes, good)) = case_from_body(&rf.body, &mut env) else {
        println!("HARNESS-ERROR bad W2 replay body");
        return 2;
    };
    let file = env.dir.join("case.htsvoice");
    let dir = env.dir.join("case.dir");
    let _ = std::fs::create_dir_all(&dir);
    let marker = std::fs::OpenOptions::new().create(true).write(true).truncate(true).open(env.dir.join("marker")).unwrap();
    // the marker goes to stdout's fd so the parent sees "ALLOC n"
    let _ = marker;
    crate::alloc::set_marker_fd(1);
    let (v, peak) = exec_case(&file, &dir, &bytes, &c, budget_for(bytes.len()) + if c.multi != 0 { 64 * good.len() } else { 0 }, Some(&good));
    match v {
        Verdict::Ok => {
            println!("RESULT ok peak={}", peak);
            0
        }
        Verdict::Err(k) => {
            println!("RESULT err {} peak={}", k, peak);
            0
        }
        Verdict::Panic(cl) => {
            println!("RESULT panic {}", cl);
            1
        }
    }
}

fn case_from_body(body: &[String], env: &mut Env) -> Option<(Case, Vec<u8>, Vec<u8>)> {
    let mut base = None;
    let mut other = None;
    let mut hash_seed = 0u64;
    let mut faults = Vec::new();
    let mut after_good = false;
    let mut multi = 0u8;
    for l in body {
        let (k, v) = l.split_once(' ')?;
        match k {
            "sequence" => after_good = v == "valid-file-loaded-first-then-replaced-in-place",
            "paths" => multi = if v == "valid-file-first" { 1 } else if v == "valid-file-last" { 2 } else { 0 },
            "base" => base = VoiceRef::from_text(v),
            "other" => other = VoiceRef::from_text(v),
            "hash_seed" => hash_seed = v.parse().ok()?,
            "fault" => faults.push(Fault::from_text(v)?),
            _ => return None,
        }
    }
    let b = env.voice_bytes(&base?).ok()?;
    let o = match other {
        Some(o) => env.voice_bytes(&o).ok()?,
        None => vec![],
    };
    let mut cur = b.clone();
    for f in &faults {
        cur = apply(&cur, &o, f);
    }
    Some((Case { base: 0, faults, hash_seed, after_good, multi }, cur, b))
}

fn body_of(sp: &CaseSpace, c: &Case) -> Vec<String> {
    let mut v = vec![format!("base {}", sp.bases[c.base].vref.to_text()), format!("other {}", sp.bases[(c.base + 1) % sp.bases.len()].vref.to_text()), format!("hash_seed {}", c.hash_seed)];
    if c.after_good {
        v.push("sequence valid-file-loaded-first-then-replaced-in-place".to_string());
    }
    if c.multi != 0 {
        v.push(format!("paths {}", if c.multi == 1 { "valid-file-first" } else { "valid-file-last" }));
    }
    for f in &c.faults {
        v.push(format!("fault {}", f.to_text()));
    }
    v
}

/// Run a replay file's case in a child; returns (signature-or-empty, description)
pub fn run_file_in_child(path: &Path, timeout_s: u64) -> (String, String) {
    let exe = std::env::current_exe().expect("current_exe");
    let mut child = match Command::new(exe).arg("w2exec").arg(path).stdout(Stdio::piped()).stderr(Stdio::null()).spawn() {
        Ok(c) => c,
        Err(e) => return ("harness".into(), e.to_string()),
    };
    let t0 = Instant::now();
    loop {
        match child.try_wait() {
            Ok(Some(st)) => {
                let mut s = String::new();
                if let Some(mut o) = child.stdout.take() {
                    use std::io::Read;
                    let _ = o.read_to_string(&mut s);
                }
                if let Some(sig) = st.signal() {
                    let alloc = s.lines().find(|l| l.starts_with("ALLOC ")).map(|l| l.to_string());
                    return match alloc {
                        Some(a) => ("C18.no-crash|abort:allocation-over-budget".into(), format!("process aborted (signal {}) after an allocation request of {} bytes was refused by the case budget", sig, a.trim_start_matches("ALLOC "))),
                        None => (format!("C18.no-crash|abort:signal-{}", sig), format!("process died with signal {}", sig)),
                    };
                }
                return match st.code() {
                    Some(0) => (String::new(), s.trim().to_string()),
                    Some(1) => {
                        let class = s.lines().find_map(|l| l.strip_prefix("RESULT panic ")).unwrap_or("?").to_string();
                        (format!("C18.no-crash|panic:{}", class), format!("loader panicked: {}", class))
                    }
                    c => ("harness".into(), format!("child exit {:?}: {}", c, s)),
                };
            }
            Ok(None) => {
                if t0.elapsed() > Duration::from_secs(timeout_s) {
                    let _ = child.kill();
                    let _ = child.wait();
                    return ("C18.no-crash|hang".into(), format!("loader did not return within {} s (wall clock; normal cases take < 10 ms)", timeout_s));
                }
                std::thread::sleep(Duration::from_millis(5));
            }
            Err(e) => return ("harness".into(), e.to_string()),
        }
    }
}

// ---------------------------------------------------------------------------------------------
// parent

struct Worker {
    shard: u64,
    child: Child,
    status: PathBuf,
    marker: PathBuf,
    last_status: String,
    last_change: Instant,
}

fn spawn_worker(args: &Args, shard: u64, of: u64, start: u64, dir: &Path, limit: u64) -> Result<Worker, String> {
    spawn_worker_tag(args, shard, of, start, dir, limit, "")
}

fn spawn_worker_tag(args: &Args, shard: u64, of: u64, start: u64, dir: &Path, limit: u64, tag: &str) -> Result<Worker, String> {
    let exe = std::env::current_exe().map_err(|e| e.to_string())?;
    let status = dir.join(format!("{}status.{}", tag, shard));
    let marker = dir.join(format!("{}marker.{}", tag, shard));
    let out = dir.join(format!("{}out.{}", tag, shard));
    let errf = std::fs::OpenOptions::new().create(true).append(true).open(dir.join(format!("stderr.{}", shard))).map_err(|e| e.to_string())?;
    let child = Command::new(exe)
        .arg("w2worker")
        .args(["--tier", &args.get("tier", "quick"), "--seed", &seed_from(args).to_string(), "--doubles", &args.num("doubles", doubles_default(&args.get("tier", "quick"))).to_string()])
        .args(["--shard", &shard.to_string(), "--of", &of.to_string(), "--start", &start.to_string(), "--limit", &limit.to_string()])
        .args(["--out", out.to_str().unwrap(), "--status", status.to_str().unwrap(), "--marker", marker.to_str().unwrap()])
        .stdout(Stdio::null())
        .stderr(errf)
        .spawn()
        .map_err(|e| e.to_string())?;
    Ok(Worker { shard, child, status, marker, last_status: String::new(), last_change: Instant::now() })
}

pub fn cmd_w2(args: &Args) -> i32 {
    let t0 = Instant::now();
    let tier = args.get("tier", "quick");
    let seed = seed_from(args);
    let profile = args.get("profile", "strict");
    let known = Known::load(&args.get("known", "/verif/known_findings.txt"));
    let replay_dir = PathBuf::from(args.get("replay-dir", "/verif/replays"));
    let mut env = match Env::new("w2-parent") {
        Ok(e) => e,
        Err(e) => {
            println!("HARNESS-ERROR {}", e);
            return 2;
        }
    };
    let sp = match space(args, &mut env) {
        Ok(s) => s,
        Err(e) => {
            println!("HARNESS-ERROR {}", e);
            return 2;
        }
    };
    // --- fault-free control: every base loads; 3-stream MLSA bases also synthesize
    for b in &sp.bases {
        let (arc, _) = match env.voice(&b.vref) {
            Ok(v) => v,
            Err(e) => {
                println!("HARNESS-ERROR control: {}", e);
                return 2;
            }
        };
        if arc.metadata.num_streams >= 3 {
            let p = match env.voice_path(&b.vref) {
                Ok(p) => p,
                Err(e) => {
                    println!("HARNESS-ERROR control: {}", e);
                    return 2;
                }
            };
            let lines: Vec<String> = env.corpus[100..103].to_vec();
            let r = crate::env::guarded(|| jbonsai::Engine::load(&[&p]).map_err(|e| e.to_string()).and_then(|e| e.synthesize(&lines[..]).map_err(|e| e.to_string())));
            match r {
                Ok(Ok(w)) if !w.is_empty() => {}
                other => {
                    println!("HARNESS-ERROR control: fault-free base {} does not synthesize: {:?}", b.vref.to_text(), other.map(|x| x.map(|w| w.len())).map_err(|p| p.msg));
                    return 2;
                }
            }
        }
    }
    let total = sp.len();
    let limit = args.num("limit", total).min(total);
    let nworkers = args.num("workers", 16).max(1);
    let dir = crate::env::scratch_root().join("w2");
    let _ = std::fs::create_dir_all(&dir);
    let mut workers: Vec<Option<Worker>> = Vec::new();
    for k in 0..nworkers {
        match spawn_worker(args, k, nworkers, 0, &dir, limit) {
            Ok(w) => workers.push(Some(w)),
            Err(e) => {
                println!("HARNESS-ERROR spawn: {}", e);
                return 2;
            }
        }
    }
    // abnormal cases: idx -> (class, text)
    let mut abnormal: BTreeMap<u64, (String, String)> = BTreeMap::new();
    let mut harness_errors: Vec<String> = Vec::new();
    let mut truncated = false;
    loop {
        let mut alive = 0;
        for slot in workers.iter_mut() {
            let Some(w) = slot.as_mut() else { continue };
            let st = std::fs::read_to_string(&w.status).unwrap_or_default().trim().to_string();
            if st != w.last_status {
                w.last_status = st.clone();
                w.last_change = Instant::now();
            }
            match w.child.try_wait() {
                Ok(Some(status)) => {
                    let shard = w.shard;
                    if status.success() && st == "done" {
                        *slot = None;
                        continue;
                    }
                    // died: attribute to the case in the status file
                    let marker = std::fs::read_to_string(&w.marker).unwrap_or_default();
                    match st.parse::<u64>() {
                        Ok(idx) => {
                            let what = if let Some(sig) = status.signal() { format!("signal {}", sig) } else { format!("exit {:?}", status.code()) };
                            abnormal.insert(idx, ("abort".into(), format!("{} {}", what, marker.trim())));
                            match spawn_worker(args, shard, nworkers, idx + 1, &dir, limit) {
                                Ok(nw) => {
                                    *slot = Some(nw);
                                    alive += 1;
                                }
                                Err(e) => {
                                    harness_errors.push(format!("respawn: {}", e));
                                    *slot = None;
                                }
                            }
                        }
                        Err(_) => {
                            harness_errors.push(format!("worker {} died ({:?}) outside any case (status '{}')", shard, status, st));
                            *slot = None;
                        }
                    }
                }
                Ok(None) => {
                    alive += 1;
                    if w.last_change.elapsed() > Duration::from_secs(HANG_S) {
                        if let Ok(idx) = st.parse::<u64>() {
                            let _ = w.child.kill();
                            let _ = w.child.wait();
                            abnormal.insert(idx, ("hang".into(), format!("no progress for {} s", HANG_S)));
                            let shard = w.shard;
                            match spawn_worker(args, shard, nworkers, idx + 1, &dir, limit) {
                                Ok(nw) => *slot = Some(nw),
                                Err(e) => {
                                    harness_errors.push(format!("respawn: {}", e));
                                    *slot = None;
                                }
                            }
                        } else if w.last_change.elapsed() > Duration::from_secs(300) {
                            let _ = w.child.kill();
                            harness_errors.push(format!("worker {} stuck outside any case", w.shard));
                            *slot = None;
                        }
                    }
                }
                Err(e) => {
                    harness_errors.push(format!("wait: {}", e));
                    *slot = None;
                }
            }
        }
        if alive == 0 {
            break;
        }
        // a flood of aborts / hangs: the verdict is certain, do not spend 20 s per further case
        if abnormal.len() >= 12 {
            for slot in workers.iter_mut() {
                if let Some(w) = slot.as_mut() {
                    let _ = w.child.kill();
                    let _ = w.child.wait();
                }
                *slot = None;
            }
            truncated = true;
            break;
        }
        std::thread::sleep(Duration::from_millis(20));
    }

    if std::env::var_os("JBSIM_SLOW").is_some() {
        for k in 0..nworkers {
            for l in std::fs::read_to_string(dir.join(format!("stderr.{}", k))).unwrap_or_default().lines().filter(|l| l.starts_with("SLOW")) {
                eprintln!("{}", l);
            }
        }
    }
    // --- aggregate
    let mut evaluations = 0u64;
    let mut table: BTreeMap<String, BTreeMap<String, u64>> = BTreeMap::new();
    let mut errkinds: BTreeMap<String, u64> = BTreeMap::new();
    let mut distinct: BTreeSet<u64> = BTreeSet::new();
    let mut panics: BTreeMap<String, (u64, u64)> = BTreeMap::new(); // class -> (lowest idx, count)
    let mut seed_override: BTreeMap<u64, u64> = BTreeMap::new();
    let mut maxpeak = 0u64;
    let mut singles_done = 0u64;
    for k in 0..nworkers {
        let text = std::fs::read_to_string(dir.join(format!("out.{}", k))).unwrap_or_default();
        for l in text.lines() {
            let f: Vec<&str> = l.split('\t').collect();
            if f.len() < 8 {
                continue;
            }
            let idx: u64 = f[0].parse().unwrap_or(0);
            evaluations += 1;
            if idx < 2 * sp.singles.len() as u64 {
                singles_done += 1;
            }
            let kind = if f[2].contains('+') { format!("double:{}", f[2].split('+').next().unwrap_or("")) } else { f[2].to_string() };
            *table.entry(kind).or_default().entry(f[3].to_string()).or_insert(0) += 1;
            if f[3] == "err" {
                *errkinds.entry(f[4].to_string()).or_insert(0) += 1;
            }
            if f.len() >= 9 && !f[8].is_empty() {
                if let Ok(h) = f[8].parse::<u64>() {
                    seed_override.insert(idx, h);
                }
            }
            if f[3] == "panic" {
                let e = panics.entry(f[4].to_string()).or_insert((idx, 0));
                e.0 = e.0.min(idx);
                e.1 += 1;
            }
            maxpeak = maxpeak.max(f[5].parse().unwrap_or(0));
            if f[7] == "1" {
                distinct.insert(u64::from_str_radix(f[6], 16).unwrap_or(0));
            }
        }
    }
    for (idx, (cl, _)) in &abnormal {
        evaluations += 1;
        let c = sp.case(*idx);
        let kind = if c.faults.len() > 1 { format!("double:{}", c.faults[0].kind()) } else { c.kind() };
        *table.entry(kind).or_default().entry(cl.clone()).or_insert(0) += 1;
    }

    // --- determinism: a second pass over a prefix and a stride of the case space, in fresh processes with a
    //     different sharding; (verdict, class) per case must be identical
    let mut det_pairs = 0u64;
    let mut det_mismatch = 0u64;
    {
        let dlimit = if truncated { 0 } else { args.num("determinism", if tier == "thorough" { 20_000 } else { 4_000 }).min(limit) };
        let dof = 5u64;
        let mut ws: Vec<Worker> = Vec::new();
        let dstart2 = (2 * sp.singles.len() as u64).min(limit);
        for k in 0..dof {
            if let Ok(w) = spawn_worker_tag(args, k, dof, 0, &dir, dlimit, "det-") {
                ws.push(w);
            }
            // ... and the head of the seeded multi-fault region
            if let Ok(w) = spawn_worker_tag(args, k, dof, dstart2, &dir, (dstart2 + dlimit).min(limit), "det2-") {
                ws.push(w);
            }
        }
        for w in ws.iter_mut() {
            let _ = w.child.wait();
        }
        let mut first: BTreeMap<u64, (String, String)> = BTreeMap::new();
        for k in 0..nworkers {
            let text = std::fs::read_to_string(dir.join(format!("out.{}", k))).unwrap_or_default();
            for l in text.lines() {
                let f: Vec<&str> = l.split('\t').collect();
                if f.len() >= 8 {
                    let idx: u64 = f[0].parse().unwrap_or(u64::MAX);
                    if idx < dlimit || (idx >= dstart2 && idx < dstart2 + dlimit) {
                        first.insert(idx, (f[3].to_string(), f[4].to_string()));
                    }
                }
            }
        }
        for k in 0..2 * dof {
            let text = std::fs::read_to_string(dir.join(format!("{}out.{}", if k < dof { "det-" } else { "det2-" }, k % dof))).unwrap_or_default();
            for l in text.lines() {
                let f: Vec<&str> = l.split('\t').collect();
                if f.len() >= 8 {
                    let idx: u64 = f[0].parse().unwrap_or(u64::MAX);
                    if let Some(a) = first.get(&idx) {
                        det_pairs += 1;
                        if a.0 != f[3] || a.1 != f[4] {
                            det_mismatch += 1;
                        }
                    }
                }
            }
        }
        if det_mismatch > 0 {
            harness_errors.push(format!("determinism: {} of {} re-executed cases gave a different verdict", det_mismatch, det_pairs));
        }
    }

    // --- violations: panics (by class) and abnormal cases (confirmed alone)
    let mut exit = 0;
    let mut reports: Vec<J> = Vec::new();
    let mut known_hits: Vec<String> = Vec::new();
    let mut violations = 0u64;
    let mut candidates: Vec<(u64, String)> = Vec::new(); // (idx, expected signature or "")
    for (class, (idx, _)) in &panics {
        candidates.push((*idx, format!("C18.no-crash|panic:{}", class)));
    }
    let mut abn_seen: BTreeSet<String> = BTreeSet::new();
    for (idx, (cl, text)) in &abnormal {
        // confirm each distinct (class, marker) alone, at most a handful
        let key = format!("{}|{}", cl, text.split_whitespace().take(2).collect::<Vec<_>>().join(" "));
        if abn_seen.insert(key) && abn_seen.len() <= 8 {
            candidates.push((*idx, String::new()));
        }
    }
    candidates.sort();
    let mut reported_sigs: BTreeSet<String> = BTreeSet::new();
    let mut sequence_confirmed = 0u64;
    for (idx, expect) in candidates {
        let mut c = sp.case(idx);
        if let Some(h) = seed_override.get(&idx) {
            c.hash_seed = *h;
        }
        // minimise: drop faults one at a time while the same signature persists
        let mut cur = c.clone();
        let write = |c: &Case, name: &str, sig: &str, detail: &str| -> Result<PathBuf, String> {
            let rf = ReplayFile { property: "C18".into(), world: "W2".into(), layer: profile.clone(), verif_seed: seed, run: idx, swarm: format!("kind={} base={}", c.kind(), sp.bases[c.base].vref.to_text()), signature: sig.into(), detail: detail.into(), body: body_of(&sp, c) };
            crate::runner::write_replay(&replay_dir, name, &rf)
        };
        let name = format!("C18-{}-{}-{}.replay", seed, profile, idx);
        let tmpname = format!("C18-{}-{}-{}.tmp.replay", seed, profile, idx);
        let path = match write(&cur, &name, &expect, "") {
            Ok(p) => p,
            Err(e) => {
                println!("HARNESS-ERROR {}", e);
                return 2;
            }
        };
        let is_hang = abnormal.get(&idx).map(|a| a.0 == "hang").unwrap_or(false);
        let (mut sig, mut detail) = run_file_in_child(&path, if is_hang { HANG_CONFIRM_S } else { 30 });
        if sig.is_empty() || sig == "harness" {
            // Not reproducible from a pristine process. A worker loads thousands of files through one
            // path, so the failure may need the *sequence*: a valid file was loaded from this path, then
            // it was replaced in place by the faulted one (a re-download over a voice already in use).
            cur.after_good = true;
            if let Ok(p2) = write(&cur, &name, &expect, "") {
                let (s2, d2) = run_file_in_child(&p2, if is_hang { HANG_CONFIRM_S } else { 30 });
                if !(s2.is_empty() || s2 == "harness") {
                    sig = s2;
                    detail = format!("{} [fault sequence: the valid file was loaded from the same path first, then replaced in place]", d2);
                    sequence_confirmed += 1;
                } else {
                    cur.after_good = false;
                }
            }
        }
        if sig.is_empty() || sig == "harness" {
            if !expect.is_empty() || abnormal.contains_key(&idx) {
                harness_errors.push(format!("case {} ({}) did not reproduce alone: {} {}", idx, c.kind(), sig, detail));
            }
            let _ = std::fs::remove_file(&path);
            continue;
        }
        if !reported_sigs.insert(sig.clone()) {
            let _ = std::fs::remove_file(&path);
            continue;
        }
        if let Some(text) = known.find("C18", &sig) {
            println!("KNOWN-FINDING: {}", text);
            known_hits.push(sig.clone());
            let _ = std::fs::remove_file(&path);
            continue;
        }
        if cur.faults.len() > 1 && !is_hang {
            let mut k = 0;
            while k < cur.faults.len() && cur.faults.len() > 1 {
                let mut cand = cur.clone();
                cand.faults.remove(k);
                if let Ok(tp) = write(&cand, &tmpname, &sig, &detail) {
                    let (s2, _) = run_file_in_child(&tp, 30);
                    let _ = std::fs::remove_file(&tp);
                    if s2 == sig {
                        cur = cand;
                        continue;
                    }
                }
                k += 1;
            }
        }
        let path = match write(&cur, &name, &sig, &detail) {
            Ok(p) => p,
            Err(e) => {
                println!("HARNESS-ERROR {}", e);
                return 2;
            }
        };
        let (s3, _) = run_file_in_child(&path, if is_hang { HANG_CONFIRM_S } else { 30 });
        if s3 != sig {
            harness_errors.push(format!("case {} does not replay exactly: {} vs {}", idx, s3, sig));
            continue;
        }
        println!("VIOLATION property=C18 replay={}", path.display());
        println!("  signature: {}", sig);
        println!("  detail: {} [{}; base {}]", detail, cur.kind(), sp.bases[cur.base].vref.to_text());
        violations += 1;
        exit = 1;
        reports.push(J::obj().set("signature", J::s(&sig)).set("replay", J::s(&path.display().to_string())).set("faults", J::strs(cur.faults.iter().map(|f| f.to_text().chars().take(160).collect::<String>()))).set("detail", J::s(&detail)));
        if reports.len() >= 12 {
            break;
        }
    }
    if !harness_errors.is_empty() {
        for h in harness_errors.iter().take(10) {
            println!("HARNESS-ERROR {}", h);
        }
        if exit == 0 {
            exit = 2;
        }
    }
    if truncated {
        println!("NOTE batch stopped early after {} aborted / hung cases ({} of {} cases executed)", abnormal.len(), evaluations, limit);
    }
    if evaluations < limit && !truncated {
        println!("HARNESS-ERROR only {} of {} cases were executed", evaluations, limit);
        if exit == 0 {
            exit = 2;
        }
    }
    if violations > 0 {
        exit = 1;
    }
    // dead probes: every fault kind fired, and gave both an error and (for some kind) an ok
    let need = ["truncate", "hdr_number", "range_swap", "line_del", "line_dup", "non_utf8", "bitflip_header", "bitflip_text", "zero_sector", "io", "tok_question_ref", "tok_child_node"];
    let dead: Vec<String> = need.iter().filter(|k| table.get(**k).map(|t| t.values().sum::<u64>()).unwrap_or(0) == 0).map(|s| s.to_string()).collect();
    if !dead.is_empty() && exit == 0 && tier == "thorough" {
        println!("HARNESS-ERROR dead fault kinds: {:?}", dead);
        exit = 2;
    }

    // samples
    let mut samples = Vec::new();
    for idx in [0u64, (sp.singles.len() / 3) as u64, (sp.singles.len() / 2) as u64, 2 * sp.singles.len() as u64, 2 * sp.singles.len() as u64 + 1] {
        if idx < total {
            let c = sp.case(idx);
            samples.push(J::obj().set("case", J::u(idx)).set("base", J::s(&sp.bases[c.base].vref.to_text())).set("hash_seed", J::u(c.hash_seed & 0xffff_ffff)).set("faults", J::strs(c.faults.iter().map(|f| f.to_text().chars().take(120).collect::<String>()))));
        }
    }
    let wall = t0.elapsed().as_secs_f64();
    let cov = J::obj()
        .set("evaluations", J::u(evaluations))
        .set("distinct_nontrivial", J::u(distinct.len() as u64))
        .set("rule", J::s("cases = complete single-fault enumeration of the structured fault kinds on every base file (each under two hash seeds), then seeded double/triple faults; a case is non-trivial if the file bytes (or the path) actually differ from the valid base; distinct = distinct (base, fault list)"))
        .set("samples", J::Arr(samples))
        .set("exhaustive", J::Bool(false))
        .set("single_fault_cases_enumerated", J::u(sp.singles.len() as u64))
        .set("single_fault_enumeration_complete", J::Bool(singles_done + abnormal.keys().filter(|i| **i < 2 * sp.singles.len() as u64).count() as u64 >= (2 * sp.singles.len() as u64).min(limit)))
        .set("seeded_multi_fault_cases", J::u(limit.saturating_sub(2 * sp.singles.len() as u64)))
        .set("base_files", J::strs(sp.bases.iter().map(|b| format!("{} ({} bytes)", b.vref.to_text(), b.bytes.len()))))
        .set("fault_kind_by_outcome", kinds_table(&table))
        .set("error_kinds_returned", J::from_counts(&errkinds))
        .set("panic_classes", J::Obj(panics.iter().map(|(k, v)| (k.clone(), J::u(v.1))).collect()))
        .set("aborts_or_hangs", J::u(abnormal.len() as u64))
        .set("stopped_early_after_repeated_aborts_or_hangs", J::Bool(truncated))
        .set("peak_case_allocation_bytes", J::u(maxpeak))
        .set("allocation_budget", J::s("64 x file size + 64 MiB of live heap per case (counting global allocator); a refused request aborts the worker and is attributed by the parent"))
        .set("hang_rule", J::s("wall clock: no progress for 30 s (normal case < 10 ms, slowest stress case ~0.5 s), confirmed alone with 90 s"))
        .set("build_profile", J::s(&profile))
        .set("cases_per_hour", J::u((evaluations as f64 / wall.max(1e-9) * 3600.0) as u64))
        .set("simulated_time", J::s("none: the loader reads no clock"))
        .set("workers", J::u(nworkers))
        .set("determinism_pairs_checked", J::u(det_pairs))
        .set("determinism_mismatches", J::u(det_mismatch))
        .set("violations_confirmed_only_as_a_load_sequence_valid_file_then_faulted_file_at_the_same_path", J::u(sequence_confirmed))
        .set("real_components", J::s("jbonsai loader (Engine::load -> load_htsvoice_file -> parser), nom, serde, std::fs on tmpfs"))
        .set("simulated_components", J::s("disk contents and their faults, failing open/read, header hash-map seed, allocator budget"))
        .set("stubbed_components", J::s("none"))
        .set("violations_reported", J::Arr(reports))
        .set("known_findings_hit", J::strs(known_hits.iter().cloned()));
    let ev = J::obj()
        .set("property_id", J::s("C18"))
        .set("tier", J::s(&tier))
        .set("seed", J::u(seed))
        .set("level", J::s("fault_enumeration"))
        .set("coverage", cov)
        .set("assumptions", J::strs(["fault-free control: every base file loads (and 3-stream bases synthesize) before any faulted case is judged".to_string(), "nothing is required of a voice that loaded from a faulted file, nor of which error is returned".to_string(), "hang verdicts are wall-clock based (2000x margin), everything else is deterministic".to_string()]))
        .set("wall_s", J::Num((wall * 1000.0).round() / 1000.0))
        .set("violations", J::u(violations));
    let evp = args.get("evidence", "/verif/evidence/C18.json");
    if let Err(e) = std::fs::write(&evp, ev.render()) {
        println!("HARNESS-ERROR cannot write evidence: {}", e);
        return 2;
    }
    println!("C18 {} profile={} seed={} cases={} singles={} distinct_nontrivial={} panic_classes={} aborts_or_hangs={} violations={} wall={:.1}s exit={}", tier, profile, seed, evaluations, sp.singles.len(), distinct.len(), panics.len(), abnormal.len(), violations, wall, exit);
    exit
}
