//! Minimal JSON value + writer (no dependencies).

use std::collections::BTreeMap;
use std::fmt::Write;

#[derive(Clone, Debug)]
pub enum J {
    Null,
    Bool(bool),
    Int(i64),
    Num(f64),
    Str(String),
    Arr(Vec<J>),
    Obj(Vec<(String, J)>),
}

impl J {
    pub fn obj() -> J {
        J::Obj(Vec::new())
    }
    pub fn set(mut self, k: &str, v: J) -> J {
        if let J::Obj(ref mut o) = self {
            o.push((k.to_string(), v));
        }
        self
    }
    pub fn put(&mut self, k: &str, v: J) {
        if let J::Obj(ref mut o) = self {
            o.push((k.to_string(), v));
        }
    }
    pub fn s(x: &str) -> J {
        J::Str(x.to_string())
    }
    pub fn u(x: u64) -> J {
        J::Int(x as i64)
    }
    pub fn from_counts(m: &BTreeMap<String, u64>) -> J {
        J::Obj(m.iter().map(|(k, v)| (k.clone(), J::u(*v))).collect())
    }
    pub fn strs<I: IntoIterator<Item = String>>(it: I) -> J {
        J::Arr(it.into_iter().map(J::Str).collect())
    }
    pub fn render(&self) -> String {
        let mut s = String::new();
        self.write(&mut s, 0);
        s.push('\n');
        s
    }
    fn write(&self, out: &mut String, ind: usize) {
        match self {
            J::Null => out.push_str("null"),
            J::Bool(b) => out.push_str(if *b { "true" } else { "false" }),
            J::Int(i) => {
                let _ = write!(out, "{}", i);
            }
            J::Num(f) => {
                if f.is_finite() {
                    let _ = write!(out, "{}", f);
                } else {
                    out.push_str("null");
                }
            }
            J::Str(s) => esc(s, out),
            J::Arr(a) => {
                if a.is_empty() {
                    out.push_str("[]");
                    return;
                }
                out.push('[');
                for (i, x) in a.iter().enumerate() {
                    if i > 0 {
                        out.push(',');
                    }
                    out.push('\n');
                    pad(out, ind + 1);
                    x.write(out, ind + 1);
                }
                out.push('\n');
                pad(out, ind);
                out.push(']');
            }
            J::Obj(o) => {
                if o.is_empty() {
                    out.push_str("{}");
                    return;
                }
                out.push('{');
                for (i, (k, v)) in o.iter().enumerate() {
                    if i > 0 {
                        out.push(',');
                    }
                    out.push('\n');
                    pad(out, ind + 1);
                    esc(k, out);
                    out.push_str(": ");
                    v.write(out, ind + 1);
                }
                out.push('\n');
                pad(out, ind);
                out.push('}');
            }
        }
    }
}

fn pad(out: &mut String, n: usize) {
    for _ in 0..n {
        out.push(' ');
    }
}

fn esc(s: &str, out: &mut String) {
    out.push('"');
    for c in s.chars() {
        match c {
            '"' => out.push_str("\\\""),
            '\\' => out.push_str("\\\\"),
            '\n' => out.push_str("\\n"),
            '\r' => out.push_str("\\r"),
            '\t' => out.push_str("\\t"),
            c if (c as u32) < 0x20 => {
                let _ = write!(out, "\\u{:04x}", c as u32);
            }
            c => out.push(c),
        }
    }
    out.push('"');
}
