//! Layer L2a of C03: k real threads sharing frozen engines, run one at a time under the baton
//! scheduler (sched.rs), compared with a sequential execution of the same per-thread programs.

use std::collections::BTreeMap;
use std::sync::Arc;
use std::time::Instant;

use jbonsai::Engine;

use crate::env::{Env, SITE_COUNTS};
use crate::gen::{envelope_setter, make_utt};
use crate::ops::*;
use crate::rng::{mix, Rng};
use crate::sched::{self, Sched, Strategy};
use crate::sim::{CondModel, Eng, EngineSlot, Outcome, Prop, Sim, Stats, Stop, Violation};
use crate::voicegen::{Meta, VoiceSpec};

#[derive(Clone, Debug)]
pub struct Plan {
    pub shared: Vec<(Vec<VoiceRef>, Vec<Setter>)>,
    pub threads: Vec<Vec<TOp>>,
    pub strategy: Strategy,
    pub sched_seed: u64,
    pub heavy: bool,
    /// cold plan: the sequential reference is computed in a separate forked process, so the threads
    /// under the baton make the very first calls on the shared engines (lazily initialised tables,
    /// empty caches); warm plan: the reference pass runs first in the same process on the same engines
    pub cold: bool,
}

pub fn combined_hook(site: u32) {
    crate::env::l1_hook(site);
    sched::yield_point(site);
}

pub fn gen_plan(seed: u64, metas: &[Meta], corpus_len: usize) -> Plan {
    let mut r = Rng::new(seed);
    let heavy = r.chance(0.04);
    let nshared = if r.chance(0.8) { 1 } else { 2 };
    let mut shared = Vec::new();
    for _ in 0..nshared {
        let voices = if heavy {
            vec![if r.chance(0.5) { VoiceRef::Bundled } else { VoiceRef::Perturbed(r.below(2) as u32) }]
        } else {
            let meta = metas[r.below(metas.len())].clone();
            let n = if r.chance(0.25) { 2 } else { 1 };
            (0..n).map(|_| VoiceRef::Gen(VoiceSpec { meta: meta.clone(), body: 1 + r.below(6) as u64 })).collect()
        };
        let ns = 3;
        let mut sets = Vec::new();
        for _ in 0..r.range(0, 4) {
            let s = envelope_setter(&mut r, ns, !heavy);
            let s = match s {
                Setter::Fperiod(_) if heavy => Setter::Fperiod(*r.pick(&[80, 120, 240])),
                Setter::Speed(x) if heavy && x < 1.0 => Setter::Speed(1.0),
                s => s,
            };
            sets.push(s);
        }
        shared.push((voices, sets));
    }
    let nthreads = if heavy { *r.pick(&[2usize, 2, 3, 4]) } else { *r.pick(&[2usize, 2, 3, 3, 4, 4, 6, 8, 16]) };
    // diverse plans: every thread works on its own, longer utterances (many distinct labels in flight at
    // once, as in a server); otherwise a small pool shared by all threads (same keys on several threads)
    let diverse = !heavy && r.chance(0.25);
    let nutt = if diverse { 2 * nthreads } else { r.range(1, 3) };
    let mut utts: Vec<Utt> = Vec::new();
    for _ in 0..nutt {
        let class = if heavy {
            *r.pick(&[1usize, 2])
        } else if diverse {
            *r.pick(&[3usize, 3, 4])
        } else {
            *r.pick(&[1usize, 2, 2, 3, 3, 3])
        };
        utts.push(make_utt(&mut r, corpus_len, class));
    }
    let mut threads = Vec::new();
    for t in 0..nthreads {
        let nops = r.range(1, if nthreads > 8 { 4 } else { 7 });
        let mut ops = Vec::new();
        let mut have_private = false;
        let mut have_gen = false;
        for _ in 0..nops {
            let s = r.below(nshared);
            let utt = if diverse { utts[2 * t + r.below(2)].clone() } else { utts[r.below(utts.len())].clone() };
            let k = r.below(10);
            let op = match k {
                0..=3 => Op::Synth { e: s, utt, form: *r.pick(&Form::ALL) },
                4 => {
                    have_gen = true;
                    Op::NewGen { e: s, g: 0, utt }
                }
                5 if have_gen => Op::Drain { g: 0, max: 4000 },
                6 => {
                    have_private = true;
                    if r.chance(0.3) {
                        // a private engine built from the same voice files while other threads synthesize
                        // (loader and synthesis side by side: interned strings, global tables)
                        Op::Load { e: nshared, voices: shared[s].0.clone(), via_files: !heavy }
                    } else {
                        Op::CloneEngine { src: s, dst: nshared }
                    }
                }
                7 if have_private => Op::Set { e: nshared, s: envelope_setter(&mut r, 3, !heavy) },
                8 if have_private => Op::Synth { e: nshared, utt, form: Form::Slice },
                9 => Op::SynthBad { e: s, utt, bad_at: 0, bad_kind: r.below(4) as u8 },
                _ => Op::Synth { e: s, utt, form: Form::Slice },
            };
            let is_newgen = matches!(op, Op::NewGen { .. });
            ops.push(TOp { task: t as u8, op });
            if is_newgen && r.chance(0.8) {
                ops.push(TOp { task: t as u8, op: Op::Drain { g: 0, max: 4000 } });
            }
        }
        threads.push(ops);
    }
    let strategy = if r.chance(0.2) {
        // pile threads up inside one region (a hook site inside MLPG / GV / model lookup / vocoder)
        Strategy::PileUp { site: *r.pick(&[1u32, 2, 3, 5, 13, 14, 15, 15, 16, 17, 17, 19, 21, 23, 23, 24, 24, 25, 26, 27]), count: nthreads.min(*r.pick(&[2usize, 3, 9, 12, 16])), mean_after: 3.0 }
    } else if r.chance(0.25) {
        Strategy::Pct { change_points: vec![] } // filled in once the total number of yield points is known
    } else {
        Strategy::Random { mean: *r.pick(&[1.0, 2.0, 5.0, 20.0, 100.0, 1000.0, 10000.0]) }
    };
    if let Strategy::PileUp { .. } = strategy {
        // every thread starts with a synthesis on the shared engine so that all of them pass the site
        for (t, ops) in threads.iter_mut().enumerate() {
            ops.insert(0, TOp { task: t as u8, op: Op::Synth { e: 0, utt: utts[t % utts.len()].clone(), form: Form::Slice } });
        }
    }
    // (not in pile-up plans: a thread parked at the pile-up site would wait for the spinning taker)
    // hand-over: thread a starts a generator, pulls some frames and gives it away; thread b (which has done its own
    // work on its own thread first, and may have a generator of its own alive) takes it over, pulls it to the end and
    // synthesizes the same utterance in one go. A generator must not care which thread pulls it.
    if nthreads >= 2 && !matches!(strategy, Strategy::PileUp { .. }) && r.chance(0.35) {
        let a = r.below(nthreads - 1);
        let b = a + 1 + r.below(nthreads - 1 - a);
        let s = r.below(nshared);
        let u = utts[r.below(utts.len())].clone();
        let k = *r.pick(&[0usize, 1, 2, 5, 40]);
        threads[a].push(TOp { task: a as u8, op: Op::NewGen { e: s, g: 1, utt: u.clone() } });
        if k > 0 {
            threads[a].push(TOp { task: a as u8, op: Op::Drain { g: 1, max: k } });
        }
        threads[a].push(TOp { task: a as u8, op: Op::GiveGen { g: 1, b: 0 } });
        let own = r.chance(0.5);
        if own {
            let v = utts[r.below(utts.len())].clone();
            threads[b].push(TOp { task: b as u8, op: Op::NewGen { e: s, g: 0, utt: v } });
            threads[b].push(TOp { task: b as u8, op: Op::Drain { g: 0, max: 3 } });
        }
        threads[b].push(TOp { task: b as u8, op: Op::TakeGen { g: 1, b: 0 } });
        threads[b].push(TOp { task: b as u8, op: Op::Drain { g: 1, max: 4000 } });
        threads[b].push(TOp { task: b as u8, op: Op::Synth { e: s, utt: u, form: Form::Slice } });
        if own {
            threads[b].push(TOp { task: b as u8, op: Op::Drain { g: 0, max: 4000 } });
        }
    }
    let sched_seed = r.next_u64();
    let cold = r.chance(0.5);
    Plan { shared, threads, strategy, sched_seed, heavy, cold }
}

pub struct KeyOut {
    pub key: String,
    pub hash: u64,
    pub len: usize,
    pub kind: u8, // 0 wave, 1 panic, 2 err
}

pub struct ThreadOut {
    pub keys: Vec<KeyOut>,
    pub violation: Option<Violation>,
    pub harness: Option<String>,
    pub stats: Stats,
    pub yields: u64,
}

struct SharedEngine {
    arc: Arc<Engine>,
    model: CondModel,
    vs_id: Vec<u32>,
    voices: Vec<VoiceRef>,
    heavy: bool,
}

fn run_program(ops: &[TOp], shared: &[SharedEngine], env: &mut Env, simulated: bool) -> ThreadOut {
    let mut sim = Sim::new(Prop::C03, env);
    for (i, s) in shared.iter().enumerate() {
        sim.engines[i] = Some(EngineSlot { eng: Eng::Shared(s.arc.clone()), vs_id: s.vs_id.clone(), voices: s.voices.clone(), model: s.model.clone(), twin: None, heavy: s.heavy, private_arcs: Vec::new() });
    }
    let before: u64 = SITE_COUNTS.with(|c| c.borrow().iter().sum());
    let mut violation = None;
    let mut harness = None;
    for op in ops {
        match sim.exec(op) {
            Ok(()) => {}
            Err(Stop::Violation(v)) => {
                violation = Some(v);
                break;
            }
            Err(Stop::Harness(h)) => {
                harness = Some(h.0);
                break;
            }
        }
        if simulated {
            sched::yield_point(0);
        }
    }
    // whoever waits for a generator of this program stops waiting now
    for op in ops {
        if let Op::GiveGen { b, .. } = &op.op {
            crate::sim::box_close_if_pending(*b);
        }
    }
    let after: u64 = SITE_COUNTS.with(|c| c.borrow().iter().sum());
    let keys = sim
        .keys
        .iter()
        .map(|(k, rec)| match &rec.first {
            Outcome::Wave { hash, wave } => KeyOut { key: k.clone(), hash: *hash, len: wave.len(), kind: 0 },
            Outcome::Panic { .. } => KeyOut { key: k.clone(), hash: 0, len: 0, kind: 1 },
            Outcome::Err => KeyOut { key: k.clone(), hash: 0, len: 0, kind: 2 },
        })
        .collect();
    ThreadOut { keys, violation, harness, stats: sim.stats.clone(), yields: after - before }
}

pub struct RunOut {
    pub violation: Option<Violation>,
    pub harness: Option<String>,
    pub schedule: Vec<(u16, u64, bool)>,
    pub switches: u64,
    pub switches_by_site: [u64; 32],
    pub total_yields: u64,
    pub stats: Stats,
    pub keys_compared: u64,
    pub diverged: bool,
    pub strategy: Strategy,
    pub nthreads: usize,
    pub sched_hash: u64,
    pub digest: u64,
    pub tainted: bool,
    pub forced_unblock: u64,
    pub max_piled: usize,
}

#[cfg(feature = "threads")]
pub fn run_plan(plan: &Plan, env: &mut Env, corpus: &Arc<Vec<String>>, forced: Option<Vec<(u16, u64, bool)>>, tag: &str) -> RunOut {
    let mut out = RunOut {
        violation: None,
        harness: None,
        schedule: vec![],
        switches: 0,
        switches_by_site: [0; 32],
        total_yields: 0,
        stats: Stats::default(),
        keys_compared: 0,
        diverged: false,
        strategy: plan.strategy.clone(),
        nthreads: plan.threads.len(),
        sched_hash: 0,
        digest: 0,
        tainted: false,
        forced_unblock: 0,
        max_piled: 0,
    };
    // --- setup: build the shared engines on the main thread
    let mut shared: Vec<SharedEngine> = Vec::new();
    {
        let mut sim = Sim::new(Prop::C03, env);
        for (i, (voices, sets)) in plan.shared.iter().enumerate() {
            let mut ops = vec![TOp { task: 0, op: Op::Load { e: i, voices: voices.clone(), via_files: false } }];
            for s in sets {
                ops.push(TOp { task: 0, op: Op::Set { e: i, s: *s } });
            }
            for op in &ops {
                match sim.exec(op) {
                    Ok(()) => {}
                    Err(Stop::Violation(v)) => {
                        out.violation = Some(v);
                        return out;
                    }
                    Err(Stop::Harness(h)) => {
                        out.harness = Some(h.0);
                        return out;
                    }
                }
            }
            let Some(slot) = sim.engines[i].take() else {
                out.harness = Some("shared engine missing after setup".into());
                return out;
            };
            let Eng::Owned(e) = slot.eng else { unreachable!() };
            shared.push(SharedEngine { arc: Arc::new(e), model: slot.model, vs_id: slot.vs_id, voices: slot.voices, heavy: slot.heavy });
        }
    }
    // --- sequential reference: each thread's program alone, no interleaving.
    // warm plan: here, on the shared engines themselves; cold plan: in a forked copy of this process,
    // so that the engines the threads are about to share have never been used
    let mut seq: Vec<ThreadOut> = Vec::new();
    crate::sim::boxes_reset();
    if plan.cold {
        let scratch = env.dir.join("seq-pass.out");
        let clean = |x: &str| x.replace(['\t', '\n', '\x1f'], " ");
        let r = crate::fork::isolated(&scratch, std::time::Duration::from_secs(600), || {
            let mut s = String::new();
            use std::fmt::Write as _;
            for ops in &plan.threads {
                let t = run_program(ops, &shared, env, false);
                let _ = writeln!(
                    s,
                    "T\t{}\t{}\t{}",
                    t.yields,
                    t.harness.as_deref().map(clean).unwrap_or_default(),
                    t.violation.as_ref().map(|v| format!("{}\x1f{}\x1f{}\x1f{}", v.oracle, clean(&v.class), clean(&v.detail), v.op_index)).unwrap_or_default()
                );
                for k in &t.keys {
                    let _ = writeln!(s, "K\t{:x}\t{}\t{}\t{}", k.hash, k.len, k.kind, clean(&k.key));
                }
                if t.harness.is_some() || t.violation.is_some() {
                    break;
                }
            }
            s
        });
        match r {
            crate::fork::ForkOut::Ok(text) => {
                for l in text.lines() {
                    let f: Vec<&str> = l.split('\t').collect();
                    match f[0] {
                        "T" if f.len() >= 4 => {
                            let violation = if f[3].is_empty() {
                                None
                            } else {
                                let p: Vec<&str> = f[3].split('\x1f').collect();
                                let oracle: &'static str = Box::leak(p[0].to_string().into_boxed_str());
                                Some(Violation { oracle, class: p.get(1).unwrap_or(&"").to_string(), detail: p.get(2).unwrap_or(&"").to_string(), op_index: p.get(3).and_then(|x| x.parse().ok()).unwrap_or(0) })
                            };
                            seq.push(ThreadOut { keys: vec![], violation, harness: if f[2].is_empty() { None } else { Some(f[2].to_string()) }, stats: Stats::default(), yields: f[1].parse().unwrap_or(0) });
                        }
                        "K" if f.len() >= 5 => {
                            if let Some(t) = seq.last_mut() {
                                t.keys.push(KeyOut { key: f[4].to_string(), hash: u64::from_str_radix(f[1], 16).unwrap_or(0), len: f[2].parse().unwrap_or(0), kind: f[3].parse().unwrap_or(0) });
                            }
                        }
                        _ => {}
                    }
                }
            }
            crate::fork::ForkOut::Died(d) => {
                out.harness = Some(format!("sequential reference process of a cold plan died: {}", d));
                return out;
            }
        }
    } else {
        for ops in &plan.threads {
            seq.push(run_program(ops, &shared, env, false));
            if seq.last().map(|t| t.harness.is_some() || t.violation.is_some()).unwrap_or(false) {
                break;
            }
        }
    }
    for t in &seq {
        if let Some(h) = &t.harness {
            out.harness = Some(h.clone());
            return out;
        }
        if let Some(v) = &t.violation {
            // a sequential violation is an L1-type finding; report it as such
            out.violation = Some(Violation { oracle: v.oracle, class: format!("sequential:{}", v.class), detail: v.detail.clone(), op_index: v.op_index });
            return out;
        }
    }
    if seq.len() != plan.threads.len() {
        out.harness = Some("sequential reference incomplete".into());
        return out;
    }
    let est_total: u64 = seq.iter().map(|t| t.yields + plan.threads.len() as u64).sum::<u64>().max(1);
    // cross-thread consistency of the sequential pass itself
    let mut seq_map: BTreeMap<&str, (u64, usize, u8)> = BTreeMap::new();
    for t in &seq {
        for k in &t.keys {
            if let Some(prev) = seq_map.get(k.key.as_str()) {
                if *prev != (k.hash, k.len, k.kind) {
                    out.violation = Some(Violation { oracle: "C03.same-key-same-waveform", class: "sequential:waveform-differs-between-programs".into(), detail: "two sequentially executed programs produced different waveforms for the same voice set, condition and labels".into(), op_index: 0 });
                    return out;
                }
            } else {
                seq_map.insert(&k.key, (k.hash, k.len, k.kind));
            }
        }
    }
    // --- threaded pass under the baton
    let strategy = match &plan.strategy {
        Strategy::Pct { .. } => {
            let mut r = Rng::new(mix(&[plan.sched_seed, 0x9c7]));
            let d = r.range(1, 3);
            let mut cps: Vec<u64> = (0..d).map(|_| 1 + r.below(est_total as usize) as u64).collect();
            cps.sort_unstable();
            cps.dedup();
            Strategy::Pct { change_points: cps }
        }
        // keep the number of hand-overs per plan bounded (each costs a few microseconds of futex traffic):
        // at most ~20 000 context switches however many yield points the plan has
        Strategy::Random { mean } => Strategy::Random { mean: mean.max((est_total as f64 / 20_000.0).floor()).max(1.0) },
        Strategy::PileUp { site, count, mean_after } => Strategy::PileUp { site: *site, count: *count, mean_after: mean_after.max((est_total as f64 / 20_000.0).floor()) },
        s => s.clone(),
    };
    out.strategy = strategy.clone();
    crate::sim::boxes_reset();
    let k = plan.threads.len();
    let sched = Sched::new(k, plan.sched_seed, strategy, forced);
    let shared = Arc::new(shared);
    let mut handles = Vec::new();
    let t0 = Instant::now();
    for (id, ops) in plan.threads.iter().enumerate() {
        let ops = ops.clone();
        let sched = sched.clone();
        let shared = shared.clone();
        let corpus = corpus.clone();
        let tag = format!("{}-t{}", tag, id);
        let main_dir = env.dir.clone();
        let h = std::thread::Builder::new().stack_size(32 << 20).spawn(move || -> ThreadOut {
            let mut env = match Env::lite(&tag, &corpus) {
                Ok(mut e) => {
                    e.shared_dir = Some(main_dir);
                    e
                }
                Err(e) => {
                    sched.enter(id);
                    sched.leave(id);
                    return ThreadOut { keys: vec![], violation: None, harness: Some(e), stats: Stats::default(), yields: 0 };
                }
            };
            sched.enter(id);
            let r = std::panic::catch_unwind(std::panic::AssertUnwindSafe(|| run_program(&ops, &shared, &mut env, true)));
            sched.leave(id);
            match r {
                Ok(r) => r,
                Err(_) => ThreadOut { keys: vec![], violation: None, harness: Some("simulated thread panicked outside a guarded call".into()), stats: Stats::default(), yields: 0 },
            }
        });
        match h {
            Ok(h) => handles.push(h),
            Err(e) => {
                out.harness = Some(format!("spawn: {}", e));
                // cannot continue safely: the scheduler expects k threads
                std::process::exit(2);
            }
        }
    }
    // monitor: wait for the simulated threads; if the baton holder passes no yield point and is asleep in the kernel
    // (or, as a fallback, makes no progress for 1.5 s) it is presumed blocked (on a lock held by a parked thread) and the baton is taken away
    {
        let mut last = sched.heartbeat.load(std::sync::atomic::Ordering::Relaxed);
        let mut still = Instant::now();
        let mut asleep: Option<(usize, u32)> = None; // (holder, consecutive polls seen asleep)
        while !handles.iter().all(|h| h.is_finished()) {
            std::thread::sleep(std::time::Duration::from_micros(500));
            let now = sched.heartbeat.load(std::sync::atomic::Ordering::Relaxed);
            if now != last {
                last = now;
                still = Instant::now();
                asleep = None;
                continue;
            }
            // no yield point passed since the last poll: is the holder asleep in the kernel?
            let mut blocked = false;
            match sched.holder_sleeping() {
                Some((h, true)) => {
                    let n = match asleep {
                        Some((h0, n)) if h0 == h => n + 1,
                        _ => 1,
                    };
                    asleep = Some((h, n));
                    // asleep on four consecutive polls (2 ms) with no progress in between
                    blocked = n >= 4;
                }
                _ => asleep = None,
            }
            if blocked || still.elapsed().as_millis() > 1500 {
                if !sched.force_unblock() {
                    println!("HARNESS-ERROR L2a: every simulated thread is blocked (deadlock inside the code under test?); cannot continue");
                    std::process::exit(2);
                }
                still = Instant::now();
                asleep = None;
            }
            let limit = std::env::var("JBSIM_L2A_LIMIT").ok().and_then(|x| x.parse().ok()).unwrap_or(180u64);
            if t0.elapsed().as_secs() > limit {
                println!("HARNESS-ERROR L2a: a plan ran for more than {} s; scheduler state: {}", limit, sched.dump());
                if std::env::var_os("JBSIM_L2A_HOLD").is_some() {
                    eprintln!("HOLD pid {}", std::process::id());
                    std::thread::sleep(std::time::Duration::from_secs(300));
                }
                std::process::exit(2);
            }
        }
    }
    let mut thr: Vec<ThreadOut> = Vec::new();
    for h in handles {
        match h.join() {
            Ok(t) => thr.push(t),
            Err(_) => {
                out.harness = Some("simulated thread panicked outside a guarded call (harness bug)".into());
                return out;
            }
        }
    }
    {
        let st = sched.m.lock().unwrap();
        out.schedule = st.log.clone();
        out.switches = st.switches;
        out.switches_by_site = st.switches_by_site;
        out.total_yields = st.total;
        out.diverged = st.diverged;
        out.tainted = st.tainted;
        out.forced_unblock = st.forced_unblock;
        out.max_piled = st.max_piled;
    }
    let mut h = 0u64;
    for (t, n, f) in &out.schedule {
        h = mix(&[h, *t as u64, *n, *f as u64]);
    }
    out.sched_hash = h;
    // --- compare
    for (id, t) in thr.iter().enumerate() {
        out.stats.merge(&t.stats);
        if let Some(hh) = &t.harness {
            out.harness = Some(hh.clone());
            return out;
        }
        if let Some(v) = &t.violation {
            out.violation = Some(Violation { oracle: v.oracle, class: format!("threaded:{}", v.class), detail: format!("thread {}: {}", id, v.detail), op_index: v.op_index });
            return out;
        }
        let s = &seq[id];
        let smap: BTreeMap<&str, &KeyOut> = s.keys.iter().map(|k| (k.key.as_str(), k)).collect();
        for kx in &t.keys {
            out.digest = mix(&[out.digest, kx.hash, kx.len as u64, kx.kind as u64]);
            let Some(sx) = smap.get(kx.key.as_str()) else {
                out.violation = Some(Violation { oracle: "C03.threaded-equals-sequential", class: "key-set-differs".into(), detail: format!("thread {} produced a (voice set, condition, labels) key under the scheduler that its sequential execution did not produce (a &self call changed settings?)", id), op_index: 0 });
                return out;
            };
            out.keys_compared += 1;
            if (sx.hash, sx.len, sx.kind) != (kx.hash, kx.len, kx.kind) {
                let name = |k: u8| match k {
                    0 => "waveform",
                    1 => "panic",
                    _ => "error",
                };
                out.violation = Some(Violation {
                    oracle: "C03.threaded-equals-sequential",
                    class: if sx.kind != kx.kind { format!("outcome-differs:{}-vs-{}", name(sx.kind), name(kx.kind)) } else { "waveform-differs".into() },
                    detail: format!("thread {} of {}: output under the interleaved schedule ({} context switches) differs from the same program run alone: {} of {} samples vs {} of {} samples", id, k, out.switches, name(kx.kind), kx.len, name(sx.kind), sx.len),
                    op_index: 0,
                });
                return out;
            }
        }
        if t.keys.len() != s.keys.len() {
            out.violation = Some(Violation { oracle: "C03.threaded-equals-sequential", class: "key-set-differs".into(), detail: format!("thread {}: {} distinct keys under the scheduler, {} sequentially", id, t.keys.len(), s.keys.len()), op_index: 0 });
            return out;
        }
    }
    out
}

impl Plan {
    pub fn to_lines(&self) -> Vec<String> {
        let mut v = Vec::new();
        v.push(format!("mode {}", if self.cold { "cold" } else { "warm" }));
        v.push(format!("strategy {}", self.strategy.to_text()));
        v.push(format!("sched_seed {}", self.sched_seed));
        for (i, (voices, sets)) in self.shared.iter().enumerate() {
            v.push(format!("shared {} {}", i, voices.iter().map(|x| x.to_text()).collect::<Vec<_>>().join(";")));
            for s in sets {
                v.push(format!("sset {} {}", i, s.to_text()));
            }
        }
        for (t, ops) in self.threads.iter().enumerate() {
            v.push(format!("thread {}", t));
            for o in ops {
                v.push(format!("op {}", o.to_text()));
            }
        }
        v
    }

    pub fn from_lines(lines: &[String]) -> Option<(Plan, Option<Vec<(u16, u64, bool)>>)> {
        let mut p = Plan { shared: vec![], threads: vec![], strategy: Strategy::Random { mean: 10.0 }, sched_seed: 0, heavy: false, cold: false };
        let mut forced = None;
        for l in lines {
            let (k, v) = l.split_once(' ').unwrap_or((l.as_str(), ""));
            match k {
                "strategy" => {
                    if let Some(m) = v.strip_prefix("random:") {
                        p.strategy = Strategy::Random { mean: m.parse().ok()? };
                    } else if let Some(c) = v.strip_prefix("pileup:") {
                        let mut it = c.split(':');
                        p.strategy = Strategy::PileUp { site: it.next()?.parse().ok()?, count: it.next()?.parse().ok()?, mean_after: it.next().and_then(|x| x.parse().ok()).unwrap_or(3.0) };
                    } else if let Some(c) = v.strip_prefix("pct:") {
                        p.strategy = Strategy::Pct { change_points: if c.is_empty() { vec![] } else { c.split(',').map(|x| x.parse().ok()).collect::<Option<Vec<u64>>>()? } };
                    }
                }
                "mode" => p.cold = v == "cold",
                "sched_seed" => p.sched_seed = v.parse().ok()?,
                "shared" => {
                    let (_, vs) = v.split_once(' ')?;
                    p.shared.push((vs.split(';').map(VoiceRef::from_text).collect::<Option<Vec<_>>>()?, vec![]));
                }
                "sset" => {
                    let (i, st) = v.split_once(' ')?;
                    let st = st.split(" #").next()?;
                    let w: Vec<&str> = st.split_whitespace().collect();
                    p.shared.get_mut(i.parse::<usize>().ok()?)?.1.push(Setter::from_words(&w)?);
                }
                "thread" => p.threads.push(vec![]),
                "op" => p.threads.last_mut()?.push(TOp::from_text(v)?),
                "schedule" => {
                    let mut f = Vec::new();
                    for w in v.split_whitespace() {
                        let (t, rest) = w.split_once(':')?;
                        let fin = rest.ends_with('F');
                        let n = rest.trim_end_matches('F');
                        f.push((t.parse().ok()?, n.parse().ok()?, fin));
                    }
                    forced = Some(f);
                }
                _ => return None,
            }
        }
        Some((p, forced))
    }
}

pub fn schedule_text(s: &[(u16, u64, bool)]) -> String {
    s.iter().map(|(t, n, f)| format!("{}:{}{}", t, n, if *f { "F" } else { "" })).collect::<Vec<_>>().join(" ")
}


// ---------------------------------------------------------------------------------------------
// batch driver

#[cfg(feature = "threads")]
pub fn cmd_l2a(args: &crate::Args) -> i32 {
    use crate::json::J;
    use std::collections::BTreeSet;
    let t0 = Instant::now();
    let tier = args.get("tier", "quick");
    let seed = crate::seed_from(args);
    let thorough = tier == "thorough";
    let runs = args.num("runs", if thorough { 60_000 } else { 2_500 });
    let workers = args.num("workers", 16).max(1) as usize;
    let det = args.num("determinism", if thorough { 600 } else { 100 });
    let replay_dir = std::path::PathBuf::from(args.get("replay-dir", "/verif/replays"));
    let corpus: Arc<Vec<String>> = match Env::new("l2a-main") {
        Ok(e) => Arc::new(e.corpus.clone()),
        Err(e) => {
            println!("HARNESS-ERROR {}", e);
            return 2;
        }
    };
    struct Sum {
        i: u64,
        out: RunOut,
        plan: Plan,
        det: (u64, u64),
    }
    let det_stride = if det == 0 { 0 } else { (runs / det.max(1)).max(1) };
    let pools = crate::gen::Pools::new(seed);
    let corpus_len = corpus.len();
    // --- child mode: run one shard single-threaded (apart from the simulated threads) and report
    if let Some(outp) = args.opt.get("child-out") {
        let shard = args.num("shard", 0);
        let of = args.num("of", 1).max(1);
        let mut env = match Env::new(&format!("l2a-c{}", shard)) {
            Ok(e) => e,
            Err(e) => {
                eprintln!("l2a child: {}", e);
                return 2;
            }
        };
        let status = std::env::var_os("JBSIM_STATUS_FILE").map(std::path::PathBuf::from);
        let mut t = String::new();
        use std::fmt::Write as _;
        let mut i = shard;
        while i < runs {
            if let Some(p) = &status {
                let _ = std::fs::write(p, format!("{}", i));
            }
            let plan = gen_plan(mix(&[seed, 0x12a, i]), &pools.plain_metas, corpus_len);
            // every execution of a plan happens in its own forked process: statics / thread-locals the
            // code under test may leave behind cannot reach the next plan (or the determinism re-runs)
            let scratch = env.dir.join("plan.out");
            let clean = |x: &str| x.replace(['\t', '\n'], " ");
            let want_sched = det_stride > 0 && i % det_stride == 0;
            let mut exec = |p: &Plan, forced: Option<Vec<(u16, u64, bool)>>, env: &mut Env| -> Result<(String, String), String> {
                let tag = format!("l2a-c{}", shard);
                let r = crate::fork::isolated(&scratch, std::time::Duration::from_secs(900), || {
                    let out = run_plan(p, env, &corpus, forced, &tag);
                    let sites: Vec<String> = out.switches_by_site.iter().map(|x| x.to_string()).collect();
                    format!(
                        "R\t{}\t{:x}\t{:x}\t{}\t{}\t{}\t{}\t{}\t{}\t{}\t{}\t{}\t{}\t{}\t{}\t{}\n{}",
                        i,
                        out.sched_hash,
                        out.digest,
                        out.switches,
                        out.total_yields,
                        out.keys_compared,
                        out.nthreads,
                        out.strategy.to_text(),
                        out.tainted as u8,
                        out.forced_unblock,
                        out.stats.vacuous,
                        out.diverged as u8,
                        out.max_piled,
                        sites.join(","),
                        out.harness.as_deref().map(clean).unwrap_or_default(),
                        out.violation.as_ref().map(|v| format!("{}\x1f{}\x1f{}", v.oracle, clean(&v.class), clean(&v.detail))).unwrap_or_default(),
                        schedule_text(&out.schedule)
                    )
                });
                match r {
                    crate::fork::ForkOut::Ok(t) => {
                        let (line, sched) = t.split_once('\n').unwrap_or((t.as_str(), ""));
                        Ok((line.to_string(), sched.to_string()))
                    }
                    crate::fork::ForkOut::Died(d) => Err(d),
                }
            };
            match exec(&plan, None, &mut env) {
                Ok((line, sched)) => {
                    let f: Vec<&str> = line.split('\t').collect();
                    let clean_run = f.len() >= 17 && f[15].is_empty() && f[16].is_empty() && f[9] == "0";
                    let mut det = (0u64, 0u64);
                    if want_sched && clean_run {
                        // determinism sample: same plan + same seed => same schedule and digest;
                        // forcing the recorded schedule => no divergence, same digest
                        if let Ok((l2, _)) = exec(&plan, None, &mut env) {
                            let g: Vec<&str> = l2.split('\t').collect();
                            if g.len() >= 17 && g[9] == "0" {
                                det.0 += 1;
                                if g[2] != f[2] || g[3] != f[3] {
                                    det.1 += 1;
                                }
                            }
                        }
                        let mut p2 = plan.clone();
                        if let Some((pp, _)) = Plan::from_lines(&[format!("strategy {}", f[8])]) {
                            p2.strategy = pp.strategy;
                        }
                        let forced: Option<Vec<(u16, u64, bool)>> = Plan::from_lines(&[format!("schedule {}", sched)]).and_then(|x| x.1);
                        if let Ok((l3, _)) = exec(&p2, forced, &mut env) {
                            let g: Vec<&str> = l3.split('\t').collect();
                            if g.len() >= 17 && g[9] == "0" {
                                det.0 += 1;
                                if g[12] == "1" || g[2] != f[2] || g[3] != f[3] {
                                    det.1 += 1;
                                }
                            }
                        }
                    }
                    let _ = writeln!(t, "{}", line);
                    let _ = writeln!(t, "D\t{}\t{}\t{}", i, det.0, det.1);
                }
                Err(d) => {
                    let _ = writeln!(t, "R\t{}\t0\t0\t0\t0\t0\t0\trandom:1\t0\t0\t0\t0\t0\t\tplan process died: {}\t", i, clean(&d));
                }
            }
            i += of;
        }
        t.push_str("DONE\n");
        return if std::fs::write(outp, t).is_ok() { 0 } else { 2 };
    }
    // --- parent: shard over child processes (so that process-wide state in the code under test
    //     cannot leak between plans that merely run at the same time)
    let dir = crate::env::scratch_root().join("l2a-parent");
    let _ = std::fs::create_dir_all(&dir);
    let exe = std::env::current_exe().expect("current_exe");
    let mut children = Vec::new();
    for k in 0..workers as u64 {
        let outp = dir.join(format!("shard.{}", k));
        let st = dir.join(format!("status.{}", k));
        let c = std::process::Command::new(&exe)
            .arg("l2a")
            .args(["--tier", &tier, "--seed", &seed.to_string(), "--runs", &runs.to_string(), "--determinism", &det.to_string()])
            .args(["--shard", &k.to_string(), "--of", &workers.to_string(), "--child-out", outp.to_str().unwrap()])
            .env("JBSIM_STATUS_FILE", &st)
            .stdout(std::process::Stdio::inherit())
            .spawn();
        match c {
            Ok(c) => children.push((k, c, outp, st)),
            Err(e) => {
                println!("HARNESS-ERROR spawn: {}", e);
                return 2;
            }
        }
    }
    let mut early_harness: Vec<String> = Vec::new();
    for (k, c, _, st) in children.iter_mut() {
        match c.wait() {
            Ok(s) if s.success() => {}
            Ok(s) => early_harness.push(format!("L2a worker process {} ended abnormally ({:?}) in plan {}", k, s, std::fs::read_to_string(&*st).unwrap_or_default())),
            Err(e) => early_harness.push(e.to_string()),
        }
    }
    let mut all: Vec<Sum> = Vec::new();
    let mut det_lines: Vec<(u64, u64, u64)> = Vec::new();
    for (_, _, outp, _) in &children {
        let text = std::fs::read_to_string(outp).unwrap_or_default();
        if !text.ends_with("DONE\n") {
            early_harness.push(format!("incomplete L2a shard output {}", outp.display()));
        }
        for l in text.lines() {
            let f: Vec<&str> = l.split('\t').collect();
            if f[0] == "D" && f.len() >= 4 {
                det_lines.push((f[1].parse().unwrap_or(0), f[2].parse().unwrap_or(0), f[3].parse().unwrap_or(0)));
                continue;
            }
            if f[0] != "R" || f.len() < 17 {
                continue;
            }
            let i: u64 = f[1].parse().unwrap_or(0);
            let mut by_site = [0u64; 32];
            for (k, x) in f[14].split(',').enumerate().take(32) {
                by_site[k] = x.parse().unwrap_or(0);
            }
            let strategy = if let Some(m) = f[8].strip_prefix("random:") {
                Strategy::Random { mean: m.parse().unwrap_or(1.0) }
            } else if let Some(c) = f[8].strip_prefix("pileup:") {
                let mut it = c.split(':');
                Strategy::PileUp { site: it.next().and_then(|x| x.parse().ok()).unwrap_or(0), count: it.next().and_then(|x| x.parse().ok()).unwrap_or(0), mean_after: it.next().and_then(|x| x.parse().ok()).unwrap_or(3.0) }
            } else {
                Strategy::Pct { change_points: f[8].trim_start_matches("pct:").split(',').filter_map(|x| x.parse().ok()).collect() }
            };
            let mut stats = Stats::default();
            stats.vacuous = f[11].parse().unwrap_or(0);
            let violation = if f[16].is_empty() {
                None
            } else {
                let p: Vec<&str> = f[16].split('\x1f').collect();
                let oracle: &'static str = Box::leak(p[0].to_string().into_boxed_str());
                Some(Violation { oracle, class: p.get(1).unwrap_or(&"").to_string(), detail: p.get(2).unwrap_or(&"").to_string(), op_index: 0 })
            };
            let out = RunOut {
                violation,
                harness: if f[15].is_empty() { None } else { Some(f[15].to_string()) },
                schedule: vec![],
                switches: f[4].parse().unwrap_or(0),
                switches_by_site: by_site,
                total_yields: f[5].parse().unwrap_or(0),
                stats,
                keys_compared: f[6].parse().unwrap_or(0),
                diverged: false,
                strategy,
                nthreads: f[7].parse().unwrap_or(0),
                sched_hash: u64::from_str_radix(f[2], 16).unwrap_or(0),
                digest: u64::from_str_radix(f[3], 16).unwrap_or(0),
                tainted: f[9] == "1",
                forced_unblock: f[10].parse().unwrap_or(0),
                max_piled: f[13].parse().unwrap_or(0),
            };
            let plan = gen_plan(mix(&[seed, 0x12a, i]), &pools.plain_metas, corpus_len);
            all.push(Sum { i, out, plan, det: (0, 0) });
        }
    }
    let _ = std::fs::remove_dir_all(&dir);
    if (all.len() as u64) < runs && early_harness.is_empty() {
        early_harness.push(format!("only {} of {} plans were executed", all.len(), runs));
    }
    all.sort_by_key(|s| s.i);
    let det_pairs: u64 = det_lines.iter().map(|d| d.1).sum();
    let det_mismatch: u64 = det_lines.iter().map(|d| d.2).sum();
    let mut exit = 0;
    let mut stats = Stats::default();
    let mut scheds: BTreeSet<u64> = BTreeSet::new();
    let mut nontrivial: BTreeSet<u64> = BTreeSet::new();
    let mut switches = 0u64;
    let mut by_site = [0u64; 32];
    let mut yields = 0u64;
    let mut keys = 0u64;
    let mut nthreads_hist: BTreeMap<String, u64> = BTreeMap::new();
    let mut strat_hist: BTreeMap<String, u64> = BTreeMap::new();
    let mut harness: Vec<String> = early_harness;
    let mut found: Vec<&Sum> = Vec::new();
    for s in &all {
        stats.merge(&s.out.stats);
        scheds.insert(s.out.sched_hash);
        if s.out.switches > 0 && s.out.keys_compared > 0 {
            nontrivial.insert(s.out.sched_hash);
        }
        switches += s.out.switches;
        for k in 0..32 {
            by_site[k] += s.out.switches_by_site[k];
        }
        yields += s.out.total_yields;
        keys += s.out.keys_compared;
        *nthreads_hist.entry(format!("{}", s.out.nthreads)).or_insert(0) += 1;
        *strat_hist.entry(match &s.out.strategy { Strategy::Random { mean } => format!("random:{}", mean), Strategy::Pct { change_points } => format!("pct:d={}", change_points.len()), Strategy::PileUp { site, .. } => format!("pileup:site{}", site) }).or_insert(0) += 1;
        if let Some(h) = &s.out.harness {
            if harness.len() < 5 {
                harness.push(format!("run {}: {}", s.i, h));
            }
        }
        if s.out.violation.is_some() {
            found.push(s);
        }
    }
    if !harness.is_empty() {
        for h in &harness {
            println!("HARNESS-ERROR {}", h);
        }
        exit = 2;
    }
    if det_mismatch > 0 {
        println!("HARNESS-ERROR L2a determinism: {} of {} re-executions differ", det_mismatch, det_pairs);
        exit = 2;
    }
    // violations
    let known = crate::Known::load(&args.get("known", "/verif/known_findings.txt"));
    let mut reports = Vec::new();
    let mut seen_sig: BTreeSet<String> = BTreeSet::new();
    let mut violations = 0u64;
    let mut env = Env::new("l2a-min").ok();
    for s in found.iter() {
        let v = s.out.violation.as_ref().unwrap();
        let sig = v.signature();
        if !seen_sig.insert(sig.clone()) || seen_sig.len() > 4 {
            continue;
        }
        if let Some(t) = known.find("C03", &sig) {
            println!("KNOWN-FINDING: {}", t);
            continue;
        }
        // reproduce in this (otherwise idle) process to obtain the executed schedule
        let mut plan = s.plan.clone();
        let mut best_sched = s.out.schedule.clone();
        let mut realised = s.out.strategy.clone();
        if let Some(env) = env.as_mut() {
            for attempt in 0..6u64 {
                let mut q = plan.clone();
                if attempt > 0 {
                    q.sched_seed = mix(&[plan.sched_seed, 0x7e7, attempt]);
                }
                let o = run_plan_isolated(&q, env, &corpus, None, "l2a-rep");
                if o.violation.as_ref().map(|x| x.signature() == sig).unwrap_or(false) {
                    best_sched = o.schedule;
                    realised = o.strategy;
                    plan = q;
                    break;
                }
            }
        }
        // minimise: drop threads / ops while some seeded schedule still shows the same signature
        let orig_plan = plan.clone();
        let orig_sched = best_sched.clone();
        plan.strategy = realised.clone();
        if let Some(env) = env.as_mut() {
            let tmin = Instant::now();
            let still = |p: &Plan, env: &mut Env| -> Option<Vec<(u16, u64, bool)>> {
                for k in 0..12u64 {
                    let mut q = p.clone();
                    q.sched_seed = mix(&[p.sched_seed, k]);
                    let o = run_plan_isolated(&q, env, &corpus, None, "l2a-min");
                    if o.violation.as_ref().map(|x| x.signature() == sig).unwrap_or(false) {
                        return Some(o.schedule);
                    }
                }
                None
            };
            // threads
            let mut t = 0;
            while plan.threads.len() > 2 && t < plan.threads.len() && tmin.elapsed().as_secs() < 30 {
                let mut cand = plan.clone();
                cand.threads.remove(t);
                for (nt, ops) in cand.threads.iter_mut().enumerate() {
                    for o in ops.iter_mut() {
                        o.task = nt as u8;
                    }
                }
                if let Some(sc) = still(&cand, env) {
                    plan = cand;
                    best_sched = sc;
                } else {
                    t += 1;
                }
            }
            // ops
            for t in 0..plan.threads.len() {
                let mut k = 0;
                while k < plan.threads[t].len() && plan.threads[t].len() > 1 && tmin.elapsed().as_secs() < 30 {
                    let mut cand = plan.clone();
                    cand.threads[t].remove(k);
                    if let Some(sc) = still(&cand, env) {
                        plan = cand;
                        best_sched = sc;
                    } else {
                        k += 1;
                    }
                }
            }
            // the seed used by `still` is not recorded: re-derive the failing schedule by forcing it
            let o = run_plan_isolated(&plan, env, &corpus, Some(best_sched.clone()), "l2a-min");
            if !o.violation.as_ref().map(|x| x.signature() == sig).unwrap_or(false) {
                // fall back to the original, unminimised failure
                plan = orig_plan.clone();
                plan.strategy = realised.clone();
                best_sched = orig_sched.clone();
            }
        }
        let mut body = plan.to_lines();
        body.push(format!("schedule {}", schedule_text(&best_sched)));
        let rf = crate::runner::ReplayFile { property: "C03".into(), world: "W1".into(), layer: "L2a".into(), verif_seed: seed, run: s.i, swarm: format!("threads={} strategy={}{}", plan.threads.len(), plan.strategy.to_text(), if s.out.tainted { " tainted-by-blocking" } else { "" }), signature: sig.clone(), detail: v.detail.clone(), body };
        let name = format!("C03-L2a-{}-{}.replay", seed, s.i);
        let path = match crate::runner::write_replay(&replay_dir, &name, &rf) {
            Ok(p) => p,
            Err(e) => {
                println!("HARNESS-ERROR {}", e);
                return 2;
            }
        };
        let (code, outp) = crate::replay_in_fresh_process(&path);
        if code == 1 && outp.contains("SAME-SIGNATURE") {
            println!("VIOLATION property=C03 replay={}", path.display());
            println!("  signature: {}", sig);
            println!("  detail: {}", v.detail);
            println!("  threads: {}  schedule entries: {}", plan.threads.len(), best_sched.len());
            violations += 1;
            reports.push(J::obj().set("signature", J::s(&sig)).set("replay", J::s(&path.display().to_string())).set("detail", J::s(&v.detail)));
            exit = exit.max(1);
        } else {
            println!("HARNESS-ERROR L2a violation '{}' of run {} did not reproduce from its replay file (exit {}): {}", sig, s.i, code, outp.trim());
            exit = 2;
        }
    }
    // dead probes
    if exit == 0 && thorough && (by_site[2] == 0 || by_site[3] == 0 || by_site[0] == 0) {
        println!("HARNESS-ERROR dead probes: no context switch inside Vocoder::synthesize / MlpgAdjust::create / at op boundaries");
        exit = 2;
    }
    let site_names = ["op boundary", "generate_step (per frame)", "Vocoder::synthesize (per sample)", "MlpgAdjust::create (per vector index)", "Models::duration (per label)", "Models::stream (per label/state)", "Models::gv (per label)", "generator: before Models::new", "generator: before duration estimation", "generator: before spectrum MLPG", "generator: before lf0 MLPG", "generator: before lpf MLPG", "generator: before SpeechGenerator::new", "MlpgMatrix::solve (after factorization)", "ldl_factorization (per frame)", "GV iteration", "calc_wuw_and_wum (per frame)", "MlpgMatrix::par (GV branch entry)", "duration adjustment loop", "tree search (per node)", "label parsing (per line)", "VoiceSet::weighted (per voice)", "MlpgAdjust::create (after mask)", "GV gradient loop (per frame)", "GV update loop (per frame)", "GV iteration (after update)", "c2ir (per tap)", "freqt (per coefficient)"];
    let mut sites = J::obj();
    for (k, n) in site_names.iter().enumerate() {
        sites.put(n, J::u(by_site[k]));
    }
    let samples: Vec<J> = all.iter().take(3).map(|s| J::obj().set("run", J::u(s.i)).set("threads", J::u(s.out.nthreads as u64)).set("strategy", J::s(&s.out.strategy.to_text())).set("plan", J::strs(s.plan.to_lines().into_iter().take(14))).set("schedule_head", J::s(&schedule_text(&s.out.schedule.iter().take(24).cloned().collect::<Vec<_>>())))).collect();
    let wall = t0.elapsed().as_secs_f64();
    let part = J::obj()
        .set("evaluations", J::u(all.len() as u64))
        .set("distinct_schedules", J::u(scheds.len() as u64))
        .set("distinct_nontrivial", J::u(nontrivial.len() as u64))
        .set("rule", J::s("one evaluation = one plan (1-2 frozen engines shared by 2-16 real threads, each with a program of synthesize / generator / clone+set+synthesize / failing calls) executed once alone per thread (cold plans: in a separate forked process, so the threads make the first calls ever on the shared engines; warm plans: first, in the same process) and once under the baton scheduler; non-trivial = at least one context switch happened and at least one waveform was compared; distinct = distinct executed run-length schedule"))
        .set("samples", J::Arr(samples))
        .set("context_switches", J::u(switches))
        .set("context_switches_by_site", sites)
        .set("yield_points_executed", J::u(yields))
        .set("waveform_keys_compared", J::u(keys))
        .set("threads_per_run", J::from_counts(&nthreads_hist))
        .set("strategies", J::from_counts(&strat_hist))
        .set("max_threads_piled_up_at_one_site", J::u(all.iter().map(|s| s.out.max_piled as u64).max().unwrap_or(0)))
        .set("plans_with_9_or_more_threads_piled_up", J::u(all.iter().filter(|s| s.out.max_piled >= 9).count() as u64))
        .set("cold_plans_threads_make_the_first_calls_on_the_engines", J::u(all.iter().filter(|s| s.plan.cold).count() as u64))
        .set("warm_plans_reference_pass_first_in_the_same_process", J::u(all.iter().filter(|s| !s.plan.cold).count() as u64))
        .set("plans_with_a_generator_handed_from_one_thread_to_another", J::u(all.iter().filter(|s| s.plan.threads.iter().any(|t| t.iter().any(|o| matches!(o.op, Op::TakeGen { .. })))).count() as u64))
        .set("tainted_runs_blocking_detected", J::u(all.iter().filter(|s| s.out.tainted).count() as u64))
        .set("forced_unblocks", J::u(all.iter().map(|s| s.out.forced_unblock).sum()))
        .set("determinism_pairs_checked", J::u(det_pairs))
        .set("determinism_mismatches", J::u(det_mismatch))
        .set("schedules_per_hour", J::u((all.len() as f64 / wall.max(1e-9) * 3600.0) as u64))
        .set("vacuous", J::u(stats.vacuous))
        .set("violations_reported", J::Arr(reports))
        .set("violations", J::u(violations))
        .set("wall_s", J::Num((wall * 1000.0).round() / 1000.0));
    let evp = args.get("evidence-part", "/verif/evidence/parts/C03.l2a.json");
    if let Some(parent) = std::path::Path::new(&evp).parent() {
        let _ = std::fs::create_dir_all(parent);
    }
    if std::fs::write(&evp, part.render()).is_err() {
        println!("HARNESS-ERROR cannot write {}", evp);
        return 2;
    }
    if violations > 0 {
        exit = 1;
    }
    println!("C03/L2a {} seed={} plans={} distinct_schedules={} switches={} yields={} keys_compared={} violations={} wall={:.1}s exit={}", tier, seed, all.len(), scheds.len(), switches, yields, keys, violations, wall, exit);
    exit
}

/// A plan execution in a forked process; returns the violation (if any), the executed schedule and
/// the realised strategy.
#[cfg(feature = "threads")]
pub struct IsoOut {
    pub violation: Option<Violation>,
    pub schedule: Vec<(u16, u64, bool)>,
    pub strategy: Strategy,
    pub tainted: bool,
    pub diverged: bool,
    pub harness: Option<String>,
}

#[cfg(feature = "threads")]
pub fn run_plan_isolated(plan: &Plan, env: &mut Env, corpus: &Arc<Vec<String>>, forced: Option<Vec<(u16, u64, bool)>>, tag: &str) -> IsoOut {
    let scratch = env.dir.join("iso-plan.out");
    let clean = |x: &str| x.replace(['\t', '\n'], " ");
    let r = crate::fork::isolated(&scratch, std::time::Duration::from_secs(900), || {
        let o = run_plan(plan, env, corpus, forced, tag);
        format!(
            "{}\n{}\n{}\n{}\n{}\n{}",
            o.violation.as_ref().map(|v| format!("{}\x1f{}\x1f{}", v.oracle, clean(&v.class), clean(&v.detail))).unwrap_or_default(),
            schedule_text(&o.schedule),
            o.strategy.to_text(),
            o.tainted as u8,
            o.diverged as u8,
            o.harness.as_deref().map(clean).unwrap_or_default()
        )
    });
    match r {
        crate::fork::ForkOut::Ok(t) => {
            let l: Vec<&str> = t.split('\n').collect();
            let violation = if l.first().map(|x| x.is_empty()).unwrap_or(true) {
                None
            } else {
                let p: Vec<&str> = l[0].split('\x1f').collect();
                let oracle: &'static str = Box::leak(p[0].to_string().into_boxed_str());
                Some(Violation { oracle, class: p.get(1).unwrap_or(&"").to_string(), detail: p.get(2).unwrap_or(&"").to_string(), op_index: 0 })
            };
            let schedule = Plan::from_lines(&[format!("schedule {}", l.get(1).unwrap_or(&""))]).and_then(|x| x.1).unwrap_or_default();
            let strategy = Plan::from_lines(&[format!("strategy {}", l.get(2).unwrap_or(&"random:1"))]).map(|x| x.0.strategy).unwrap_or(Strategy::Random { mean: 1.0 });
            IsoOut { violation, schedule, strategy, tainted: l.get(3) == Some(&"1"), diverged: l.get(4) == Some(&"1"), harness: l.get(5).filter(|x| !x.is_empty()).map(|x| x.to_string()) }
        }
        crate::fork::ForkOut::Died(d) => IsoOut { violation: None, schedule: vec![], strategy: plan.strategy.clone(), tainted: false, diverged: false, harness: Some(format!("plan process died: {}", d)) },
    }
}

#[cfg(feature = "threads")]
pub fn replay_l2a(f: &crate::runner::ReplayFile) -> i32 {
    let Some((plan, forced)) = Plan::from_lines(&f.body) else {
        println!("HARNESS-ERROR bad L2a replay body");
        return 2;
    };
    let mut env = match Env::new("l2a-replay") {
        Ok(e) => e,
        Err(e) => {
            println!("HARNESS-ERROR {}", e);
            return 2;
        }
    };
    let corpus = Arc::new(env.corpus.clone());
    let mut o = run_plan_isolated(&plan, &mut env, &corpus, forced.clone(), "l2a-replay");
    // a run in which a thread blocked on a lock cannot be replayed exactly: allow a few attempts
    let mut attempts = 1;
    while o.violation.is_none() && o.harness.is_none() && (o.tainted || f.swarm.contains("tainted")) && attempts < 6 {
        let mut p = plan.clone();
        p.sched_seed = mix(&[plan.sched_seed, attempts]);
        o = run_plan_isolated(&p, &mut env, &corpus, if attempts % 2 == 0 { forced.clone() } else { None }, "l2a-replay");
        attempts += 1;
    }
    if let Some(h) = o.harness {
        println!("HARNESS-ERROR {}", h);
        return 2;
    }
    match o.violation {
        Some(v) => {
            println!("REPRODUCED property=C03 signature={} detail={} (schedule diverged: {})", v.signature(), v.detail, o.diverged);
            println!("{}", if v.signature() == f.signature { "SAME-SIGNATURE".to_string() } else { format!("DIFFERENT-SIGNATURE recorded={}", f.signature) });
            1
        }
        None => {
            println!("NOT-REPRODUCED property=C03 (plan ran clean; schedule diverged: {})", o.diverged);
            0
        }
    }
}
