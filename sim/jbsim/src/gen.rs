//! Seeded generation of W1 op histories (swarm-configured per run), plus the systematic C02 prefix.

use crate::ops::*;
use crate::rng::{mix, Rng};
use crate::sim::{Prop, Sim, MAX_ENGINES, MAX_GENS};
use crate::voicegen::{Meta, VoiceSpec};

#[derive(Clone, Debug)]
pub struct Swarm {
    pub ntasks: u8,
    pub nops: usize,
    pub profile: &'static str,
    pub heavy: bool,
    pub metas: Vec<Meta>,
    pub bodies: Vec<u64>,
    pub utts: Vec<Utt>,
    pub targets: Vec<Vec<Setter>>,
    pub w: OpWeights,
    pub max_voices: usize,
    /// scripted ops executed before the random part
    pub prelude: Vec<TOp>,
}

#[derive(Clone, Debug, Default)]
pub struct OpWeights {
    pub load: u32,
    pub clone: u32,
    pub clone_from: u32,
    pub reload: u32,
    pub dropengine: u32,
    pub set: u32,
    pub set_target: u32,
    pub setw_valid: u32,
    pub setw_invalid: u32,
    pub vsnew: u32,
    pub synth: u32,
    pub synthbad: u32,
    pub newgen: u32,
    pub step: u32,
    pub query: u32,
    pub finish: u32,
    pub dropgen: u32,
    pub rebuild: u32,
    pub inplace: u32,
    pub reloadbad: u32,
}

impl Swarm {
    pub fn describe(&self) -> String {
        format!(
            "profile={} tasks={} nops={} heavy={} metas={} bodies={} utts={} targets={}",
            self.profile,
            self.ntasks,
            self.nops,
            self.heavy,
            self.metas.len(),
            self.bodies.len(),
            self.utts.len(),
            self.targets.len()
        )
    }
}

/// Batch-wide pools (derived from VERIF_SEED only) so that voices are shared between runs and cached.
pub struct Pools {
    pub metas: Vec<Meta>,
    pub plain_metas: Vec<Meta>,
    pub seed: u64,
}

impl Pools {
    pub fn new(verif_seed: u64) -> Pools {
        let mut r = Rng::new(mix(&[verif_seed, 0x706f_6f6c]));
        let metas = (0..40).map(|_| Meta::random(&mut r)).collect();
        let plain_metas = (0..24).map(|_| Meta::random_plain(&mut r)).collect();
        Pools { metas, plain_metas, seed: verif_seed }
    }
    pub fn body(&self, meta_idx: usize, k: usize) -> u64 {
        mix(&[self.seed, 0x626f_6479, meta_idx as u64, k as u64]) % 1_000_000_007
    }
}

pub const ENVELOPE_NOTE: &str = "alpha,beta in [0,0.8]; gv weight in [0,2]; msd in [0,1]; |half tone|<=24; |volume|<=20; speed in [0.25,4]; fperiod 1..480; rate 8k..96k";

fn next_up(x: f64) -> f64 {
    if x == 0.0 {
        return f64::from_bits(1);
    }
    let b = x.to_bits();
    f64::from_bits(if x > 0.0 { b + 1 } else { b - 1 })
}
fn next_down(x: f64) -> f64 {
    if x == 0.0 {
        return -f64::from_bits(1);
    }
    let b = x.to_bits();
    f64::from_bits(if x > 0.0 { b - 1 } else { b + 1 })
}

/// adversarial finite f64 (C20)
pub fn adversarial_f64(r: &mut Rng, lo: f64, hi: Option<f64>) -> f64 {
    match r.below(16) {
        0 => 0.0,
        1 => -0.0,
        2 => f64::from_bits(1) * if r.chance(0.5) { 1.0 } else { -1.0 },
        3 => f64::MIN_POSITIVE * if r.chance(0.5) { 1.0 } else { -1.0 },
        4 => 1e-300 * if r.chance(0.5) { 1.0 } else { -1.0 },
        5 => 1e300 * if r.chance(0.5) { 1.0 } else { -1.0 },
        6 => f64::MAX * if r.chance(0.5) { 1.0 } else { -1.0 },
        7 => *r.pick(&[lo, next_up(lo), next_down(lo)]),
        8 => match hi {
            Some(h) => *r.pick(&[h, next_up(h), next_down(h)]),
            None => r.uniform(0.0, 1e6),
        },
        9 => -r.uniform(1.0, 1e9),
        10 => r.uniform(-2.0, 3.0),
        11 | 12 => {
            // 1-2 ulp around values a setter may special-case: defaults and round numbers
            let c = *r.pick(&[1.0f64, 0.5, 0.0, 2.0, 0.25, 1e-6, 0.1, 24.0, -24.0, 0.55]);
            match r.below(5) {
                0 => c,
                1 => next_up(c),
                2 => next_down(c),
                3 => next_up(next_up(c)),
                _ => next_down(next_down(c)),
            }
        }
        13 => *r.pick(&[f64::MAX / 2.0, next_up(f64::MAX / 2.0), 1e308, 1.5e308, -1e308, f64::MAX / 4.0, 9.007199254740993e15, 16777217.0, 4294967297.0, 1.0000000000000002e-6]),
        _ => {
            let h = hi.unwrap_or(lo + 4.0);
            r.uniform(lo, h)
        }
    }
}

pub fn adversarial_usize(r: &mut Rng) -> usize {
    match r.below(8) {
        0 => 0,
        1 => 1,
        2 => 2,
        3 => usize::MAX,
        4 => usize::MAX - 1,
        5 => r.range(1, 100_000),
        _ => r.range(1, 500),
    }
}

/// exact-sum weight vector for n voices
pub fn valid_weights(r: &mut Rng, n: usize) -> Vec<f64> {
    if n == 0 {
        return vec![];
    }
    for _ in 0..20 {
        let mut w: Vec<f64> = Vec::with_capacity(n);
        match r.below(7) {
            6 if n >= 2 => {
                // a tiny but exactly representable component: [1 - 2^-k, 2^-k, 0, ...] sums to exactly 1
                let k = r.range(20, 40) as i32;
                let t = 2f64.powi(-k);
                w = vec![0.0; n];
                let p0 = r.below(n);
                let p1 = (p0 + 1 + r.below(n - 1)) % n;
                w[p0] = 1.0 - t;
                w[p1] = t;
            }
            0 => {
                // simplex vertex
                let k = r.below(n);
                w = (0..n).map(|i| if i == k { 1.0 } else { 0.0 }).collect();
            }
            1 if n == 2 => {
                let (a, b) = *r.pick(&[(0.7, 0.3), (0.5, 0.5), (0.25, 0.75), (0.9, 0.1), (0.6, 0.4), (0.2, 0.8)]);
                w = vec![a, b];
            }
            _ => {
                let mut acc = 0.0f64;
                for _ in 0..n - 1 {
                    let k = r.irange(-512, 1536) as f64 / 1024.0;
                    w.push(k);
                    acc += k;
                }
                w.push(1.0 - acc);
            }
        }
        let s: f64 = w.iter().sum();
        if w.len() == n && s == 1.0 {
            return w;
        }
    }
    (0..n).map(|i| if i == 0 { 1.0 } else { 0.0 }).collect()
}

/// a clearly invalid weight vector for n voices; returns (vector, kind)
pub fn invalid_weights(r: &mut Rng, n: usize) -> Vec<f64> {
    match r.below(8) {
        7 if n >= 2 => {
            // the error is spread over several components, each of them tiny (< 1e-6), the total >= 1e-6
            let mut w: Vec<f64> = (0..n).map(|i| if i == 0 { 1.0 } else { 0.0 }).collect();
            let p0 = r.below(n);
            w.swap(0, p0);
            let e = *r.pick(&[6.0e-7, 7.5e-7, 9.0e-7, -6.0e-7, -9.0e-7]);
            let mut placed = 0;
            for i in 0..n {
                if i != p0 && placed < 3 {
                    w[i] += e;
                    placed += 1;
                }
            }
            if placed < 2 {
                w[p0] += e; // two voices: the second share of the error sits on the large component
            }
            w
        }
        6 if n >= 2 => {
            // large components that cancel: [B, (1+d)-B, 0, ...] with B = 2^k and d = +-2^-j chosen so that
            // every value and the left-to-right sum 1+d are exact in f64 and |d| >= 1e-6. A tolerance that
            // scales with the magnitude of the components would let this through.
            let k = r.range(12, 44) as i32;
            let j = r.range(4, (53 - k).min(19) as usize) as i32;
            let b = 2f64.powi(k);
            let d = 2f64.powi(-j) * if r.chance(0.5) { 1.0 } else { -1.0 };
            let mut w = vec![0.0; n];
            let p0 = r.below(n);
            let p1 = (p0 + 1 + r.below(n - 1)) % n;
            w[p0] = b;
            w[p1] = (1.0 + d) - b;
            let s: f64 = w.iter().sum();
            if s == 1.0 + d && (s - 1.0).abs() >= 1.0e-6 {
                w
            } else {
                let mut w = valid_weights(r, n);
                w[0] += 0.5;
                w
            }
        }
        5 if n >= 1 => {
            // an infinite component: the sum is +-inf, or NaN when two of them cancel
            let mut w = valid_weights(r, n);
            let k = r.below(n);
            w[k] = if r.chance(0.5) { f64::INFINITY } else { f64::NEG_INFINITY };
            if n >= 2 && r.chance(0.4) {
                let k2 = (k + 1 + r.below(n - 1)) % n;
                w[k2] = -w[k];
            }
            w
        }
        0 => valid_weights(r, n + 1), // wrong length, good sum
        1 if n >= 2 => valid_weights(r, n - 1),
        1 => vec![],
        2 => {
            let mut w = valid_weights(r, n);
            let d = *r.pick(&[2.0e-6, -2.0e-6, 0.01, -0.01, 1.0, -0.5, 1e3]);
            let k = r.below(n.max(1));
            if let Some(x) = w.get_mut(k) {
                *x += d;
            }
            w
        }
        3 => {
            let mut w = valid_weights(r, n);
            let k = r.below(n.max(1));
            if let Some(x) = w.get_mut(k) {
                *x = f64::NAN;
            }
            w
        }
        _ => {
            // wrong length and bad sum
            let mut w = valid_weights(r, n + 2);
            w[0] += 0.25;
            w
        }
    }
}

pub fn envelope_setter(r: &mut Rng, ns: usize, light: bool) -> Setter {
    match r.below(10) {
        0 => Setter::SamplingFrequency(if light { *r.pick(&[8000, 8000, 11025, 16000, 22050, 48000]) } else { *r.pick(&[8000, 16000, 22050, 44100, 48000, 96000]) }),
        1 => Setter::Fperiod(if light { *r.pick(&[1, 2, 3, 4, 4, 5, 6, 8, 8, 10, 12, 16]) } else { *r.pick(&[1, 2, 3, 5, 8, 16, 40, 80]) }),
        2 => Setter::Volume(if r.chance(0.03) { *r.pick(&[f64::NEG_INFINITY, -7000.0, -400.0, 0.0]) } else { r.uniform(-20.0, 20.0) }),
        3 => Setter::Msd(r.below(ns.max(1)), *r.pick(&[0.0, 0.3, 0.5, 0.7, 0.9, 1.0])),
        4 => Setter::GvWeight(r.below(ns.max(1)), *r.pick(&[0.0, 0.5, 1.0, 1.5, 2.0])),
        5 => Setter::Align(r.chance(0.5)),
        6 => Setter::Speed(*r.pick(&[0.25, 0.5, 0.8, 1.0, 1.2, 1.4, 2.0, 4.0])),
        7 => Setter::Alpha(*r.pick(&[0.0, 0.1, 0.3, 0.42, 0.55, 0.8])),
        8 => Setter::Beta(if r.chance(0.9) { 0.0 } else { *r.pick(&[0.1, 0.2, 0.4, 0.8]) }), // beta > 0 costs ~1 ms per frame (postfilter)
        _ => Setter::HalfTone(*r.pick(&[-24.0, -12.0, -3.5, 0.0, 1.0, 7.0, 24.0])),
    }
}

pub fn adversarial_setter(r: &mut Rng, ns: usize) -> Setter {
    let s = r.below(ns.max(1));
    match r.below(10) {
        0 => Setter::SamplingFrequency(adversarial_usize(r)),
        1 => Setter::Fperiod(adversarial_usize(r)),
        2 => Setter::Volume(r.uniform(-60.0, 60.0)),
        3 => Setter::Msd(s, adversarial_f64(r, 0.0, Some(1.0))),
        4 => Setter::GvWeight(s, adversarial_f64(r, 0.0, None)),
        5 => Setter::Align(r.chance(0.5)),
        6 => Setter::Speed(adversarial_f64(r, 1.0e-6, None)),
        7 => Setter::Alpha(adversarial_f64(r, 0.0, Some(1.0))),
        8 => Setter::Beta(adversarial_f64(r, 0.0, Some(1.0))),
        _ => Setter::HalfTone(adversarial_f64(r, -24.0, Some(24.0))),
    }
}

fn field_of(s: &Setter) -> (u8, usize) {
    match s {
        Setter::SamplingFrequency(_) => (0, 0),
        Setter::Fperiod(_) => (1, 0),
        Setter::Volume(_) => (2, 0),
        Setter::Msd(i, _) => (3, *i),
        Setter::GvWeight(i, _) => (4, *i),
        Setter::Align(_) => (5, 0),
        Setter::Speed(_) => (6, 0),
        Setter::Alpha(_) => (7, 0),
        Setter::Beta(_) => (8, 0),
        Setter::HalfTone(_) => (9, 0),
    }
}

pub fn make_utt(r: &mut Rng, corpus_len: usize, class: usize) -> Utt {
    let n = match class {
        0 => 0,
        1 => 1,
        2 => r.range(2, 4),
        3 => r.range(2, 12),
        _ => 40,
    };
    let mut lines = Vec::with_capacity(n);
    if n > 0 {
        if r.chance(0.6) {
            // a window of the corpus
            let start = r.below(corpus_len - n.min(corpus_len - 1));
            for i in 0..n {
                lines.push((start + i) as u32);
            }
        } else {
            for _ in 0..n {
                lines.push(r.below(corpus_len) as u32);
            }
        }
    }
    if r.chance(0.2) {
        // recombined labels (Env::line_text): same shape as corpus lines, fields mixed between lines
        for l in lines.iter_mut() {
            *l += (corpus_len * r.range(1, 40)) as u32;
        }
    }
    let timed = if r.chance(0.25) { *r.pick(&[1u32, 2, 4, 8]) } else { 0 };
    Utt { lines, timed }
}

pub fn swarm(prop: Prop, r: &mut Rng, pools: &Pools, corpus_len: usize) -> Swarm {
    let heavy_p = match prop {
        Prop::C02 => 0.01,
        Prop::C03 => 0.02,
        Prop::C19 => 0.01,
        Prop::C20 => 0.01,
    };
    let heavy = r.chance(heavy_p);
    // metas: C02/C03/C19 mostly plain (3 streams, MLSA) so synthesis is not vacuous
    let nmeta = r.range(1, 2);
    let mut metas = Vec::new();
    for _ in 0..nmeta {
        let plain = r.chance(if prop == Prop::C20 { 0.6 } else { 0.85 });
        let (pool, base) = if plain { (&pools.plain_metas, 1000) } else { (&pools.metas, 0) };
        let idx = r.below(pool.len());
        let mut m = pool[idx].clone();
        let mut key = base + idx;
        if matches!(prop, Prop::C19 | Prop::C20) && m.nstreams == 3 && r.chance(0.12) {
            // voices with 4..6 streams: per-stream settings and weights exist for every stream index
            m.nstreams = r.range(4, 6);
            key += 100_000 * m.nstreams;
        }
        metas.push((m, key));
    }
    let bodies: Vec<u64> = (0..4).map(|k| k as u64).collect();
    let nutt = r.range(1, 4);
    let mut utts: Vec<Utt> = Vec::new();
    for _ in 0..nutt {
        let class = if heavy { *r.pick(&[0usize, 1, 2, 2]) } else { *r.pick(&[0usize, 1, 2, 2, 2, 3, 3, 3, 3, 4]) };
        let class = if class == 4 && !r.chance(0.15) { 3 } else { class };
        utts.push(make_utt(r, corpus_len, class));
    }
    // siblings: same length and mostly the same labels as another utterance of this run (a cache keyed
    // by length / first label / a prefix would confuse them)
    if !utts.is_empty() && r.chance(0.5) {
        let base = utts[r.below(utts.len())].clone();
        if base.lines.len() >= 2 {
            let mut sib = base.clone();
            let k = match r.below(3) {
                0 => sib.lines.len() - 1,
                1 => sib.lines.len() / 2,
                _ => 1 + r.below(sib.lines.len() - 1),
            };
            sib.lines[k] = r.below(corpus_len) as u32;
            utts.push(sib);
            if r.chance(0.3) {
                let mut rev = base.clone();
                rev.lines.reverse();
                utts.push(rev);
            }
            if r.chance(0.3) {
                // same labels, other time stamps (only the alignment differs)
                let mut ret = base.clone();
                ret.timed = *r.pick(&[1u32, 2, 4, 8, 0]);
                if ret.timed == base.timed {
                    ret.timed = if base.timed == 3 { 5 } else { 3 };
                }
                utts.push(ret);
            }
        }
    }
    let mut w = OpWeights::default();
    let profile: &'static str;
    #[allow(unused_assignments)]
    let mut nops = r.range(8, 40);
    let mut max_voices = 1;
    match prop {
        Prop::C20 => {
            profile = *r.pick(&["setter_storm", "setter_storm", "clone_heavy", "multi_engine"]);
            w.load = 3;
            w.set = 60;
            w.clone = if profile == "clone_heavy" { 15 } else { 3 };
            w.clone_from = if profile == "clone_heavy" { 8 } else { 2 };
            w.reload = 2;
            w.reloadbad = 2;
            w.rebuild = 3;
            w.dropengine = 1;
            w.setw_valid = 2;
            nops = r.range(10, 60);
            max_voices = 2;
        }
        Prop::C19 => {
            profile = *r.pick(&["weights_mixed", "weights_mixed", "rejects_heavy", "voiceset_heavy", "synth_heavy"]);
            w.load = 4;
            w.setw_valid = 20;
            w.setw_invalid = if profile == "rejects_heavy" { 40 } else { 20 };
            w.vsnew = if profile == "voiceset_heavy" { 30 } else { 6 };
            w.synth = if profile == "synth_heavy" { 25 } else { 10 };
            w.clone = 3;
            w.clone_from = 2;
            w.reload = 3;
            w.reloadbad = 1;
            w.rebuild = 2;
            w.set = 3;
            w.dropengine = 1;
            nops = r.range(8, 40);
            // up to six voices: sums over five or more terms (pairwise / blocked summation schemes differ there)
            max_voices = 6;
        }
        Prop::C02 => {
            profile = *r.pick(&["steps_only", "finish_heavy", "mixed", "mixed", "many_generators", "engine_churn"]);
            w.load = 3;
            w.set = 8;
            w.newgen = if profile == "many_generators" { 14 } else { 7 };
            w.step = if profile == "steps_only" { 90 } else { 50 };
            w.query = 6;
            w.finish = match profile {
                "finish_heavy" => 14,
                "steps_only" => 1,
                _ => 5,
            };
            w.dropgen = 2;
            w.synth = 2;
            w.dropengine = if profile == "engine_churn" { 6 } else { 1 };
            w.clone = if profile == "engine_churn" { 5 } else { 1 };
            // identity ops (see C03): the engine rebuilt over deep copies of its voices, voices overwritten in place
            // between two generators - another voice at the same address, deterministically
            w.rebuild = if profile == "engine_churn" { 6 } else { 1 };
            w.inplace = if profile == "engine_churn" { 6 } else { 1 };
            nops = r.range(15, 120);
        }
        Prop::C03 => {
            profile = *r.pick(&["repeat", "setter_histories", "clone_heavy", "generators", "failed_ops_heavy", "mixed", "engine_churn", "identity"]);
            w.load = if profile == "engine_churn" { 14 } else { 4 };
            w.set = if profile == "setter_histories" { 25 } else { 8 };
            w.set_target = if profile == "setter_histories" { 30 } else { 12 };
            w.clone = if profile == "clone_heavy" { 15 } else { 4 };
            w.clone_from = if profile == "clone_heavy" { 8 } else { 2 };
            w.dropengine = if profile == "engine_churn" { 12 } else { 1 };
            w.synth = 30;
            w.synthbad = if profile == "failed_ops_heavy" { 15 } else { 3 };
            w.setw_valid = 3;
            w.setw_invalid = if profile == "failed_ops_heavy" { 10 } else { 2 };
            w.newgen = if profile == "generators" { 10 } else { 3 };
            w.step = if profile == "generators" { 60 } else { 20 };
            w.dropgen = 1;
            // identity: the same voices by content in other / shared allocations, voices overwritten in
            // place between two uses (an address, an Arc or a pointer comparison is not an identity)
            w.rebuild = if profile == "identity" { 14 } else { 2 };
            w.inplace = if profile == "identity" { 10 } else { 1 };
            nops = r.range(10, 60);
            // three voices: the first count at which the order of a floating-point sum matters
            max_voices = 3;
        }
    }
    // rare long-audio runs: thousands of frames / hundreds of thousands of samples, so that counters,
    // block sizes and tables sized for "typical" utterances are crossed
    let mut prelude: Vec<TOp> = Vec::new();
    let mut exact_total = false;
    if matches!(prop, Prop::C02 | Prop::C03) && !heavy && r.chance(0.008) {
        // a quarter of them extra long (up to ~25 k frames): thresholds at 2^12, 2^13, 2^14 frames
        let extra_long = r.chance(0.25);
        let n = if extra_long { r.range(200, 320) } else { r.range(80, 120) };
        let start = r.below(corpus_len - n);
        let mut long = Utt { lines: (start..start + n).map(|x| x as u32).collect(), timed: 0 };
        let mi = 0;
        let v = VoiceRef::Gen(VoiceSpec { meta: metas[mi].0.clone(), body: pools.body(metas[mi].1, 0) });
        prelude.push(TOp { task: 0, op: Op::Load { e: 0, voices: vec![v], via_files: false } });
        // many-frames variant (C02): the frame COUNT crosses 2^16 / 2^17 while the audio stays short - time-aligned
        // labels of tens of milliseconds each at a frame period of 1-4 samples
        let many_frames = prop == Prop::C02 && r.chance(0.15);
        if many_frames {
            let fp = *r.pick(&[1usize, 2, 4]);
            let target = *r.pick(&[65_600usize, 66_000, 70_000, 131_200]);
            let nl = 100usize;
            let per_label = target.div_ceil(nl);
            let ms = (per_label * fp * 1000).div_ceil(metas[mi].0.rate.max(1)).max(1);
            long = Utt { lines: (start..start + nl.min(n)).map(|x| x as u32).collect(), timed: ms as u32 };
            prelude.push(TOp { task: 0, op: Op::Set { e: 0, s: Setter::Align(true) } });
            prelude.push(TOp { task: 0, op: Op::Set { e: 0, s: Setter::Fperiod(fp) } });
        } else {
            prelude.push(TOp { task: 0, op: Op::Set { e: 0, s: Setter::Speed(*r.pick(&[0.25, 0.3, 0.5])) } });
            prelude.push(TOp { task: 0, op: Op::Set { e: 0, s: Setter::Fperiod(*r.pick(&[60, 80, 120, 240, 480])) } });
        }
        if prop == Prop::C02 {
            prelude.push(TOp { task: 0, op: Op::NewGen { e: 0, g: 0, utt: long.clone() } });
            let max = if many_frames {
                *r.pick(&[65_535, 65_536, 65_537, 66_000])
            } else if extra_long {
                *r.pick(&[4095, 4096, 4097, 8191, 8192, 8193, 9000, 16384, 16385])
            } else {
                *r.pick(&[1023, 1024, 1100, 2500, 4096, 4097])
            };
            prelude.push(TOp { task: 0, op: Op::Drain { g: 0, max } });
            prelude.push(TOp { task: 0, op: Op::Query { g: 0 } });
            prelude.push(TOp { task: 1, op: Op::Finish { g: 0 } });
            // a second and third generator of the same engine, started while the first is far ahead,
            // then pulled alternately
            prelude.push(TOp { task: 0, op: Op::NewGen { e: 0, g: 1, utt: long.clone() } });
            prelude.push(TOp { task: 0, op: Op::NewGen { e: 0, g: 2, utt: long.clone() } });
            prelude.push(TOp { task: 0, op: Op::Drain { g: 1, max: *r.pick(&[40, 200, 700]) } });
            for k in 0..12 {
                prelude.push(TOp { task: (k % 3) as u8, op: Op::Drain { g: 1 + (k % 2), max: *r.pick(&[1, 3, 10, 60]) } });
            }
            prelude.push(TOp { task: 0, op: Op::Finish { g: 1 } });
            prelude.push(TOp { task: 1, op: Op::Finish { g: 2 } });
        } else {
            prelude.push(TOp { task: 0, op: Op::Synth { e: 0, utt: long.clone(), form: Form::Slice } });
            prelude.push(TOp { task: 1, op: Op::Synth { e: 0, utt: long.clone(), form: Form::Slice } });
            prelude.push(TOp { task: 1, op: Op::CloneEngine { src: 0, dst: 1 } });
            prelude.push(TOp { task: 1, op: Op::Synth { e: 1, utt: long.clone(), form: Form::Slice } });
        }
        utts = vec![make_utt(r, corpus_len, 2)];
        nops = prelude.len() + 4;
    }
    // exact totals (C02): time-aligned labels chosen so that the utterance has exactly 256 / 512 / 1024 / 2048 /
    // 4096 frames (or one more / less); the generator is pulled to the end and then asked again
    if prop == Prop::C02 && !heavy && prelude.is_empty() && metas[0].0.nstreams >= 3 && r.chance(0.02) {
        let v = VoiceRef::Gen(VoiceSpec { meta: metas[0].0.clone(), body: pools.body(metas[0].1, 0) });
        let (nl, ms) = *r.pick(&[(64usize, 1u32), (64, 2), (128, 1), (32, 4), (128, 2), (64, 4), (128, 4), (128, 8)]);
        let nl = match r.below(6) {
            0 => nl + 1,
            1 => nl - 1,
            _ => nl,
        };
        let start = r.below(corpus_len - nl);
        let u = Utt { lines: (start..start + nl).map(|x| x as u32).collect(), timed: ms };
        prelude.push(TOp { task: 0, op: Op::Load { e: 0, voices: vec![v], via_files: false } });
        prelude.push(TOp { task: 0, op: Op::Set { e: 0, s: Setter::Align(true) } });
        prelude.push(TOp { task: 0, op: Op::Set { e: 0, s: Setter::SamplingFrequency(16000) } });
        prelude.push(TOp { task: 0, op: Op::Set { e: 0, s: Setter::Fperiod(4) } }); // 4 frames per millisecond
        prelude.push(TOp { task: 0, op: Op::NewGen { e: 0, g: 0, utt: u.clone() } });
        prelude.push(TOp { task: 0, op: Op::NewGen { e: 0, g: 1, utt: u.clone() } });
        prelude.push(TOp { task: 0, op: Op::Drain { g: 0, max: 1_000_000 } });
        prelude.push(TOp { task: 0, op: Op::Step { g: 0, extra: 0 } });
        prelude.push(TOp { task: 0, op: Op::Query { g: 0 } });
        prelude.push(TOp { task: 0, op: Op::Step { g: 0, extra: 3 } });
        prelude.push(TOp { task: 0, op: Op::Finish { g: 0 } });
        // the second one: stop at a multiple of 256 frames, then finish
        prelude.push(TOp { task: 0, op: Op::Drain { g: 1, max: *r.pick(&[256usize, 512, 1024, 255, 257, 511, 513]) } });
        prelude.push(TOp { task: 0, op: Op::Query { g: 1 } });
        prelude.push(TOp { task: 0, op: Op::Finish { g: 1 } });
        utts = vec![u];
        nops = prelude.len() + 6;
        exact_total = true;
    }
    // rare marathon runs: one process lives through hundreds to thousands of calls on many distinct
    // utterances (a bounded cache overflows and evicts, a call counter crosses its threshold, a
    // lazily built table is reused far from where it was built), then early keys are revisited.
    // Everything else in a batch is a short history in a young process.
    let mut marathon = false;
    if matches!(prop, Prop::C02 | Prop::C03) && !heavy && prelude.is_empty() && metas[0].0.nstreams >= 3 && r.chance(if prop == Prop::C03 { 0.004 } else { 0.0012 }) {
        marathon = true;
        let n = *r.pick(&[150usize, 300, 700, 1500, 3000, 6000, 12000]);
        let mi = 0;
        let v = VoiceRef::Gen(VoiceSpec { meta: metas[mi].0.clone(), body: pools.body(metas[mi].1, 0) });
        let v2 = VoiceRef::Gen(VoiceSpec { meta: metas[mi].0.clone(), body: pools.body(metas[mi].1, 1) });
        let nt = r.range(1, 4) as u8;
        prelude.push(TOp { task: 0, op: Op::Load { e: 0, voices: vec![v.clone()], via_files: false } });
        for _ in 0..r.range(0, 3) {
            // not the postfilter: beta > 0 costs ~1 ms per frame, thousands of calls would take minutes
            let s = match envelope_setter(r, 3, true) {
                Setter::Beta(x) => Setter::Alpha(x),
                s => s,
            };
            prelude.push(TOp { task: 0, op: Op::Set { e: 0, s } });
        }
        // n distinct short utterances: the first line walks through the corpus, so no two are equal
        let start = r.below(corpus_len);
        let stride = *r.pick(&[1usize, 7, 31]);
        let pool: Vec<Utt> = (0..n)
            .map(|i| {
                // beyond the first 64, labels are recombinations of corpus lines (Env::line_text), so the
                // number of distinct label strings one process sees is not bounded by the corpus
                let v = i / 64;
                let mut lines = vec![((start + i * stride) % corpus_len + corpus_len * v) as u32];
                if r.chance(0.3) {
                    lines.push((r.below(corpus_len) + corpus_len * r.below(v + 1)) as u32);
                }
                Utt { lines, timed: 0 }
            })
            .collect();
        let revisit = |r: &mut Rng, upto: usize| -> Vec<usize> {
            let mut v: Vec<usize> = (0..upto.min(6)).collect();
            for _ in 0..10 {
                v.push(r.below(upto));
            }
            v.extend(upto.saturating_sub(4)..upto);
            v
        };
        if prop == Prop::C03 {
            for (i, u) in pool.iter().enumerate() {
                let t = (i % nt as usize) as u8;
                prelude.push(TOp { task: t, op: Op::Synth { e: 0, utt: u.clone(), form: if i % 5 == 4 { Form::VecLabel } else { Form::Slice } } });
                if i % 97 == 96 {
                    // engines come and go while the process ages
                    prelude.push(TOp { task: t, op: Op::CloneEngine { src: 0, dst: 1 } });
                    prelude.push(TOp { task: t, op: Op::Synth { e: 1, utt: pool[i / 2].clone(), form: Form::Slice } });
                    prelude.push(TOp { task: t, op: Op::DropEngine { e: 1 } });
                }
                if i % 211 == 210 {
                    prelude.push(TOp { task: t, op: Op::Load { e: 2, voices: vec![v2.clone()], via_files: true } });
                    prelude.push(TOp { task: t, op: Op::Synth { e: 2, utt: u.clone(), form: Form::Slice } });
                    prelude.push(TOp { task: t, op: Op::DropEngine { e: 2 } });
                }
                if i > 0 && (i & (i - 1)) == 0 && i >= 32 {
                    // at every power of two: look back at a few early and recent keys
                    for k in revisit(r, i) {
                        prelude.push(TOp { task: t, op: Op::Synth { e: 0, utt: pool[k].clone(), form: Form::Slice } });
                    }
                }
            }
            for k in revisit(r, n) {
                prelude.push(TOp { task: 0, op: Op::Synth { e: 0, utt: pool[k].clone(), form: Form::Slice } });
            }
            // the same keys on a second engine built late in the process's life
            prelude.push(TOp { task: 0, op: Op::CloneEngine { src: 0, dst: 3 } });
            for k in revisit(r, n) {
                prelude.push(TOp { task: 1 % nt, op: Op::Synth { e: 3, utt: pool[k].clone(), form: Form::Slice } });
            }
        } else {
            // C02: hundreds of generators of one engine, one after the other and overlapping in pairs
            for (i, u) in pool.iter().enumerate() {
                let t = (i % nt as usize) as u8;
                let g = i % 2;
                prelude.push(TOp { task: t, op: Op::NewGen { e: 0, g, utt: u.clone() } });
                match i % 4 {
                    0 => prelude.push(TOp { task: t, op: Op::Drain { g, max: 100_000 } }),
                    1 => {
                        prelude.push(TOp { task: t, op: Op::Step { g, extra: 0 } });
                        prelude.push(TOp { task: t, op: Op::Step { g, extra: i % 7 } });
                    }
                    2 => prelude.push(TOp { task: t, op: Op::Drain { g, max: 1 + i % 5 } }),
                    _ => {}
                }
                if i % 3 != 2 {
                    prelude.push(TOp { task: t, op: Op::Query { g } });
                    prelude.push(TOp { task: t, op: Op::Finish { g } });
                }
            }
        }
        utts = vec![pool[0].clone(), pool[n / 2].clone(), pool[n - 1].clone()];
        nops = prelude.len() + 6;
    }
    // targets (C03): small set of complete-ish conditions reached through different histories
    let ntargets = r.range(1, 3);
    let mut targets = Vec::new();
    for _ in 0..ntargets {
        let k = r.range(0, 5);
        let mut t: Vec<Setter> = Vec::new();
        for _ in 0..k {
            let s = envelope_setter(r, 3, !heavy);
            let s = match s {
                Setter::Fperiod(_) if heavy => Setter::Fperiod(*r.pick(&[80, 120, 240])),
                s => s,
            };
            if !t.iter().any(|x| field_of(x) == field_of(&s)) {
                t.push(s);
            }
        }
        targets.push(t);
    }
    let mut all_bodies: Vec<u64> = metas.iter().flat_map(|m| bodies.iter().map(|k| pools.body(m.1, *k as usize)).collect::<Vec<_>>()).collect();
    if prop == Prop::C03 && !heavy && prelude.is_empty() && r.chance(0.06) {
        // one voice of the run's pool has a local defect (a leaf naming a PDF that does not exist): some
        // utterances panic in the middle of a call, the others - and everything after them - must be unaffected
        let k = r.below(all_bodies.len());
        all_bodies[k] |= if r.chance(0.6) { crate::voicegen::DEFECT_LF0 } else { crate::voicegen::DEFECT_LPF };
    }
    Swarm {
        ntasks: r.range(1, 6) as u8,
        nops,
        profile: if prelude.is_empty() {
            profile
        } else if marathon {
            "marathon"
        } else if exact_total {
            "exact_total"
        } else {
            "long_audio"
        },
        heavy,
        metas: metas.iter().map(|m| m.0.clone()).collect(),
        bodies: all_bodies,
        utts,
        targets,
        w,
        max_voices,
        prelude,
    }
}

pub struct Gen {
    pub r: Rng,
    pub sw: Swarm,
    pub prop: Prop,
    cur_task: u8,
}

impl Gen {
    pub fn new(prop: Prop, r: Rng, sw: Swarm) -> Gen {
        Gen { r, sw, prop, cur_task: 0 }
    }

    fn voices_for_load(&mut self) -> Vec<VoiceRef> {
        let r = &mut self.r;
        let n = if self.sw.max_voices > 1 && r.chance(if self.prop == Prop::C19 { 0.8 } else { 0.3 }) { r.range(2, self.sw.max_voices) } else { 1 };
        if self.sw.heavy {
            let mut v = vec![if r.chance(0.6) { VoiceRef::Bundled } else { VoiceRef::Perturbed(r.below(3) as u32) }];
            for _ in 1..n.min(2) {
                v.push(VoiceRef::Perturbed(r.below(3) as u32));
            }
            return v;
        }
        let mi = r.below(self.sw.metas.len());
        let meta = self.sw.metas[mi].clone();
        (0..n)
            .map(|_| {
                let b = self.sw.bodies[mi * 4 + r.below(4)];
                VoiceRef::Gen(VoiceSpec { meta: meta.clone(), body: b })
            })
            .collect()
    }

    fn pick_utt(&mut self) -> Utt {
        self.sw.utts[self.r.below(self.sw.utts.len())].clone()
    }

    pub fn next(&mut self, sim: &Sim) -> TOp {
        if !self.sw.prelude.is_empty() {
            return self.sw.prelude.remove(0);
        }
        // task choice: sticky
        if self.r.chance(0.4) {
            self.cur_task = self.r.below(self.sw.ntasks as usize) as u8;
        }
        let task = self.cur_task;
        let occupied_e: Vec<usize> = (0..MAX_ENGINES).filter(|i| sim.engines[*i].is_some()).collect();
        let occupied_g: Vec<usize> = (0..MAX_GENS).filter(|i| sim.gens[*i].is_some()).collect();
        if occupied_e.is_empty() {
            let e = self.r.below(3);
            let voices = self.voices_for_load();
            let via_files = self.r.chance(if self.sw.profile == "engine_churn" { 0.8 } else { 0.1 });
            return TOp { task, op: Op::Load { e, voices, via_files } };
        }
        let w = self.sw.w.clone();
        let has_g = !occupied_g.is_empty();
        let weights = [
            w.load,
            w.clone,
            w.dropengine,
            w.set,
            w.set_target,
            w.setw_valid,
            w.setw_invalid,
            w.vsnew,
            w.synth,
            w.synthbad,
            w.newgen,
            if has_g { w.step } else { 0 },
            if has_g { w.query } else { 0 },
            if has_g { w.finish } else { 0 },
            if has_g { w.dropgen } else { 0 },
            w.clone_from,
            w.reload,
            w.rebuild,
            w.inplace,
            w.reloadbad,
        ];
        let k = self.r.weighted(&weights);
        let e = *self.r.pick(&occupied_e);
        let ns = sim.engines[e].as_ref().unwrap().model.nstream();
        let nv = sim.engines[e].as_ref().unwrap().model.nvoices;
        let heavy_e = sim.engines[e].as_ref().unwrap().heavy;
        let op = match k {
            0 => {
                let e = self.r.below(MAX_ENGINES.min(4));
                let voices = self.voices_for_load();
                Op::Load { e, voices, via_files: self.r.chance(if self.sw.profile == "engine_churn" { 0.8 } else { 0.1 }) }
            }
            1 => Op::CloneEngine { src: e, dst: self.r.below(MAX_ENGINES) },
            2 => Op::DropEngine { e },
            3 => Op::Set {
                e,
                s: if self.prop == Prop::C20 {
                    adversarial_setter(&mut self.r, ns)
                } else {
                    let s = envelope_setter(&mut self.r, ns, !heavy_e);
                    match s {
                        Setter::Fperiod(_) if heavy_e => Setter::Fperiod(*self.r.pick(&[80, 120, 240])),
                        Setter::Speed(x) if heavy_e && x < 1.0 => Setter::Speed(1.0),
                        s => s,
                    }
                },
            },
            4 => {
                // one setter of a target condition, possibly preceded later by junk (order is free)
                let t = self.r.below(self.sw.targets.len());
                let tt = &self.sw.targets[t];
                if tt.is_empty() {
                    Op::Synth { e, utt: self.pick_utt(), form: Form::Slice }
                } else {
                    let s = tt[self.r.below(tt.len())];
                    let s = match s {
                        Setter::Msd(i, f) => Setter::Msd(i % ns.max(1), f),
                        Setter::GvWeight(i, f) => Setter::GvWeight(i % ns.max(1), f),
                        s => s,
                    };
                    Op::Set { e, s }
                }
            }
            5 | 6 => {
                let which = match self.r.below(3) {
                    0 => Which::Dur,
                    1 => Which::Par(self.r.below(ns.max(1))),
                    _ => Which::Gv(self.r.below(ns.max(1))),
                };
                let wv = if k == 5 { valid_weights(&mut self.r, nv) } else { invalid_weights(&mut self.r, nv) };
                Op::SetW { e, which, w: wv }
            }
            7 => {
                // VoiceSet::new over 0..3 voices, possibly with one metadata field changed in one voice
                let mode = self.r.below(10);
                if mode == 0 {
                    Op::VsNew { voices: vec![], mutate: None, mutate2: None }
                } else {
                    let mi = self.r.below(self.sw.metas.len());
                    let meta = self.sw.metas[mi].clone();
                    let n = self.r.range(1, 4);
                    let voices: Vec<VoiceRef> = (0..n).map(|_| VoiceRef::Gen(VoiceSpec { meta: meta.clone(), body: self.sw.bodies[mi * 4 + self.r.below(4)] })).collect();
                    let mutate = if n >= 2 && mode >= 3 {
                        // any position, including the first voice (then every other voice differs from it)
                        let pos = self.r.below(n);
                        let si = self.r.below(meta.nstreams);
                        let f = match self.r.below(10) {
                            0 => MetaField::SamplingRate,
                            1 => MetaField::FramePeriod,
                            2 => MetaField::NumStates,
                            3 => MetaField::NumStreams,
                            4 => MetaField::StreamType,
                            5 => MetaField::VectorLength(si),
                            6 => MetaField::NumWindows(si),
                            7 => MetaField::IsMsd(si),
                            8 => MetaField::UseGv(si),
                            _ => MetaField::Option(si),
                        };
                        Some((pos, f, self.r.below(10) as u8))
                    } else {
                        None
                    };
                    // sometimes a second field, in another metadata block, of the same or another voice
                    let mutate2 = if mutate.is_some() && self.r.chance(0.25) {
                        let pos = self.r.below(n);
                        let si = self.r.below(meta.nstreams);
                        let f = match self.r.below(8) {
                            0 => MetaField::SamplingRate,
                            1 => MetaField::NumStates,
                            2 => MetaField::VectorLength(si),
                            3 => MetaField::NumWindows(si),
                            4 => MetaField::IsMsd(si),
                            5 => MetaField::UseGv(si),
                            6 => MetaField::Option(si),
                            _ => MetaField::FramePeriod,
                        };
                        Some((pos, f, self.r.below(10) as u8))
                    } else {
                        None
                    };
                    Op::VsNew { voices, mutate, mutate2 }
                }
            }
            8 => {
                let form = if self.prop == Prop::C03 { *self.r.pick(&Form::ALL) } else { Form::Slice };
                Op::Synth { e, utt: self.pick_utt(), form }
            }
            9 => {
                let utt = self.pick_utt();
                let bad_at = self.r.below(utt.lines.len() + 1);
                Op::SynthBad { e, utt, bad_at, bad_kind: self.r.below(4) as u8 }
            }
            10 => Op::NewGen { e, g: self.r.below(if self.sw.profile == "many_generators" { MAX_GENS } else { 3 }), utt: self.pick_utt() },
            11 => {
                let g = *self.r.pick(&occupied_g);
                let fp = sim.gens[g].as_ref().unwrap().fp;
                let extra = match self.r.below(6) {
                    0 | 1 | 2 => 0,
                    3 => fp,
                    4 => 2 * fp,
                    _ => self.r.range(0, 2 * fp),
                };
                Op::Step { g, extra }
            }
            12 => Op::Query { g: *self.r.pick(&occupied_g) },
            13 => Op::Finish { g: *self.r.pick(&occupied_g) },
            15 => {
                // clone_from into an existing engine if there is one, else a fresh slot
                let dst = if occupied_e.len() >= 2 && self.r.chance(0.8) { *self.r.pick(&occupied_e) } else { self.r.below(MAX_ENGINES) };
                if occupied_e.len() >= 2 && self.r.chance(0.4) {
                    // condition-only copy between two engines over the same voice set (a clone of e, if any)
                    let same: Vec<usize> = occupied_e.iter().copied().filter(|x| *x != e && sim.engines[*x].as_ref().unwrap().vs_id == sim.engines[e].as_ref().unwrap().vs_id).collect();
                    if !same.is_empty() {
                        return TOp { task, op: Op::CloneCond { src: e, dst: *self.r.pick(&same) } };
                    }
                }
                Op::CloneFrom { src: e, dst }
            }
            16 => Op::Reload { e, voices: self.voices_for_load() },
            19 => Op::ReloadBad { e, kind: self.r.below(3) as u8 },
            17 => Op::Rebuild { e, how: if self.sw.profile == "identity" || self.prop == Prop::C02 { *self.r.pick(&[3u8, 3, 3, 4, 0]) } else { self.r.below(5) as u8 } },
            18 => {
                // other voices of the same metadata (other bodies), as many as the engine has
                let cur = sim.engines[e].as_ref().unwrap().voices.clone();
                let voices: Vec<VoiceRef> = cur
                    .iter()
                    .map(|v| match v {
                        VoiceRef::Gen(s) => {
                            let mi = self.sw.metas.iter().position(|m| *m == s.meta).unwrap_or(0);
                            VoiceRef::Gen(VoiceSpec { meta: self.sw.metas[mi].clone(), body: self.sw.bodies[mi * 4 + self.r.below(4)] })
                        }
                        VoiceRef::Perturbed(_) | VoiceRef::Bundled => VoiceRef::Perturbed(self.r.below(3) as u32),
                    })
                    .collect();
                Op::ReplaceInPlace { e, voices }
            }
            _ => Op::DropGen { g: *self.r.pick(&occupied_g) },
        };
        TOp { task, op }
    }
}

// ---------------------------------------------------------------------------------------------
// systematic C02 prefix: every history over {step fp, step 2fp, step 3fp, query, finish}
// of length <= N+3 on generators of N <= 3 frames.

pub fn tiny_meta(variant: usize) -> Meta {
    Meta {
        nstate: 1,
        nstreams: 3,
        mcp_len: 2 + variant,
        lpf_len: if variant == 0 { 1 } else { 3 },
        win: if variant == 0 { 0 } else { 2 },
        gv_mcp: variant == 1,
        gv_lf0: false,
        stage: 0,
        ln_gain: false,
        alpha_milli: 300,
        rate: 8000,
        fperiod: 4,
    }
}

pub fn systematic_c02_histories(max_n: usize) -> Vec<(usize, Vec<u8>)> {
    // symbols: 0 = step fp, 1 = step 2fp, 2 = step 3fp, 3 = query, 4 = finish (terminal)
    let mut out = Vec::new();
    for n in 0..=max_n {
        let maxlen = n + 3;
        let mut stack: Vec<Vec<u8>> = vec![vec![]];
        while let Some(h) = stack.pop() {
            out.push((n, h.clone()));
            if h.len() >= maxlen || h.last() == Some(&4) {
                continue;
            }
            for s in (0..5u8).rev() {
                let mut h2 = h.clone();
                h2.push(s);
                stack.push(h2);
            }
        }
    }
    out
}

pub fn systematic_c02_ops(n: usize, hist: &[u8], variant: usize) -> Vec<TOp> {
    let spec = VoiceSpec { meta: tiny_meta(variant), body: 7 + variant as u64 };
    let mut ops = vec![
        TOp { task: 0, op: Op::Load { e: 0, voices: vec![VoiceRef::Gen(spec)], via_files: false } },
        TOp { task: 0, op: Op::Set { e: 0, s: Setter::Speed(4.0) } },
        TOp { task: 0, op: Op::NewGen { e: 0, g: 0, utt: Utt { lines: (0..n as u32).map(|i| 10 + i * 3).collect(), timed: 0 } } },
    ];
    for s in hist {
        ops.push(TOp {
            task: 0,
            op: match s {
                0 => Op::Step { g: 0, extra: 0 },
                1 => Op::Step { g: 0, extra: 4 },
                2 => Op::Step { g: 0, extra: 8 },
                3 => Op::Query { g: 0 },
                _ => Op::Finish { g: 0 },
            },
        });
    }
    ops
}
