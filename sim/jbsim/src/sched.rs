//! Layer L2a: real OS threads under a baton. Only the baton holder runs; at yield points (op
//! boundaries and the guarded hook sites inside jbonsai) the holder asks the seeded scheduler who
//! runs next. The schedule is the run-length list of chosen thread ids; replay forces it.

use std::cell::{Cell, RefCell};
use std::collections::VecDeque;
use std::sync::atomic::{AtomicBool, AtomicI32, AtomicU64, Ordering};

extern "C" {
    fn gettid() -> i32;
}
use std::sync::{Arc, Condvar, Mutex};

use crate::rng::Rng;

#[derive(Clone, Debug, PartialEq)]
pub enum Strategy {
    /// geometric run lengths with the given mean (in yield points)
    Random { mean: f64 },
    /// PCT-style: fixed random priorities, `change_points` (global yield counts) at which the running
    /// thread drops to the lowest priority; otherwise the highest-priority alive thread runs
    Pct { change_points: Vec<u64> },
    /// park every thread that reaches hook site `site` until `count` threads are parked there (or nobody
    /// else can run), then release them all and continue with short random run lengths: maximises the
    /// number of threads simultaneously inside one region of the code under test
    PileUp { site: u32, count: usize, mean_after: f64 },
}

impl Strategy {
    pub fn to_text(&self) -> String {
        match self {
            Strategy::Random { mean } => format!("random:{}", mean),
            Strategy::Pct { change_points } => format!("pct:{}", change_points.iter().map(|c| c.to_string()).collect::<Vec<_>>().join(",")),
            Strategy::PileUp { site, count, mean_after } => format!("pileup:{}:{}:{}", site, count, mean_after),
        }
    }
}

pub struct State {
    pub current: usize,
    /// run length (in yield points) drawn for `current`, picked up when it takes the baton
    pending_len: u64,
    pub alive: Vec<bool>,
    rng: Rng,
    strategy: Strategy,
    priorities: Vec<i64>,
    lowest: i64,
    /// executed schedule: (thread, yield points it ran before the baton moved or it finished)
    pub log: Vec<(u16, u64, bool)>,
    forced: Option<VecDeque<(u16, u64, bool)>>,
    pub diverged: bool,
    pub switches: u64,
    pub switches_by_site: [u64; 32],
    pub forced_unblock: u64,
    /// threads presumed blocked inside jbonsai (on a lock another simulated thread holds)
    blocked: Vec<bool>,
    /// threads that have reached `enter` (a thread that has not started yet is not "blocked")
    entered: Vec<bool>,
    /// PileUp: threads parked at the pile-up site; `released` once the pile was let go
    parked: Vec<bool>,
    /// threads that wait for another simulated thread to act (a generator hand-over): not runnable until notified
    waiting: Vec<bool>,
    released: bool,
    pub max_piled: usize,
    pub tainted: bool,
    pub deadlocked: bool,
    /// yield points executed by all threads so far (updated at every decision)
    pub total: u64,
}

pub struct Sched {
    /// bumped at every yield point by whoever runs: the monitor's progress signal
    pub heartbeat: AtomicU64,
    /// set by the monitor for a thread whose baton was taken away while it was blocked
    pub lost: Vec<AtomicBool>,
    /// kernel thread ids of the simulated threads (for the monitor's look at /proc)
    pub tids: Vec<AtomicI32>,
    pub m: Mutex<State>,
    /// one condition variable per simulated thread: a hand-over wakes exactly the next runner
    pub cvs: Vec<Condvar>,
}

thread_local! {
    static CTX: RefCell<Option<(Arc<Sched>, usize)>> = const { RefCell::new(None) };
    static ACTIVE: Cell<bool> = const { Cell::new(false) };
    static REMAINING: Cell<u64> = const { Cell::new(0) };
    static RAN: Cell<u64> = const { Cell::new(0) };
    static HB: Cell<*const AtomicU64> = const { Cell::new(std::ptr::null()) };
    static LOSTP: Cell<*const AtomicBool> = const { Cell::new(std::ptr::null()) };
    static PILE_SITE: Cell<u32> = const { Cell::new(u32::MAX) };
}

impl State {
    fn pick(&mut self, now: u64) -> (usize, u64) {
        let mut alive: Vec<usize> = (0..self.alive.len()).filter(|i| self.alive[*i] && !self.blocked[*i] && !self.waiting[*i]).collect();
        if alive.is_empty() {
            for w in self.waiting.iter_mut() {
                *w = false;
            }
            // Everybody still alive was declared blocked. The verdict "blocked" can be wrong (it is taken
            // from a look at /proc), and a thread that is merely parked in our own condition variable
            // would then never be scheduled again. So: give the blocked threads another chance. If they
            // really are blocked the monitor will notice again; only a genuine deadlock stalls for good.
            for b in self.blocked.iter_mut() {
                *b = false;
            }
            alive = (0..self.alive.len()).filter(|i| self.alive[*i]).collect();
        }
        if alive.is_empty() {
            return (usize::MAX, 1);
        }
        // PileUp bookkeeping happens on every decision, also when the choice itself is forced (replay),
        // so that threads leave the slow path at the same points as in the recorded run
        if let Strategy::PileUp { count, .. } = &self.strategy {
            let free = alive.iter().filter(|i| !self.parked[**i]).count();
            let piled = alive.len() - free;
            self.max_piled = self.max_piled.max(piled);
            if !self.released && (free == 0 || piled >= *count) {
                self.released = true;
                for p in self.parked.iter_mut() {
                    *p = false;
                }
            }
        }
        if let Some(q) = self.forced.as_mut() {
            match q.pop_front() {
                Some((t, ran, fin)) if self.alive.get(t as usize).copied().unwrap_or(false) && !self.blocked[t as usize] && !self.waiting[t as usize] => return (t as usize, if fin { ran + 1 } else { ran.max(1) }),
                _ => self.diverged = true,
            }
        }
        match &self.strategy {
            Strategy::PileUp { mean_after, .. } => {
                let free: Vec<usize> = alive.iter().copied().filter(|i| !self.parked[*i]).collect();
                if self.released {
                    let t = alive[self.rng.below(alive.len())];
                    (t, self.rng.run_len(*mean_after))
                } else {
                    // run a free thread until it reaches the site (it parks itself in `switch`)
                    let t = free[self.rng.below(free.len())];
                    (t, u64::MAX / 4)
                }
            }
            Strategy::Random { mean } => {
                let t = alive[self.rng.below(alive.len())];
                let len = self.rng.run_len(*mean);
                (t, len)
            }
            Strategy::Pct { change_points } => {
                let t = *alive.iter().max_by_key(|i| self.priorities[**i]).unwrap();
                let next_cp = change_points.iter().copied().find(|c| *c > now).unwrap_or(u64::MAX);
                (t, next_cp.saturating_sub(now).max(1))
            }
        }
    }
}

impl Sched {
    pub fn new(nthreads: usize, seed: u64, strategy: Strategy, forced: Option<Vec<(u16, u64, bool)>>) -> Arc<Sched> {
        let mut rng = Rng::new(seed);
        // priorities nthreads..2*nthreads; demoted threads get values below nthreads, decreasing
        let mut priorities: Vec<i64> = (nthreads as i64..2 * nthreads as i64).collect();
        rng.shuffle(&mut priorities);
        let mut st = State {
            current: 0,
            pending_len: 1,
            alive: vec![true; nthreads],
            rng,
            strategy,
            priorities,
            lowest: nthreads as i64,
            log: Vec::new(),
            forced: forced.map(|v| v.into_iter().collect()),
            diverged: false,
            switches: 0,
            switches_by_site: [0; 32],
            forced_unblock: 0,
            blocked: vec![false; nthreads],
            entered: vec![false; nthreads],
            parked: vec![false; nthreads],
            waiting: vec![false; nthreads],
            released: false,
            max_piled: 0,
            tainted: false,
            deadlocked: false,
            total: 0,
        };
        let (first, len) = st.pick(0);
        st.current = first;
        st.pending_len = len;
        Arc::new(Sched { heartbeat: AtomicU64::new(0), lost: (0..nthreads).map(|_| AtomicBool::new(false)).collect(), tids: (0..nthreads).map(|_| AtomicI32::new(0)).collect(), m: Mutex::new(st), cvs: (0..nthreads).map(|_| Condvar::new()).collect() })
    }

    /// Called by a simulated thread before it does anything: register and wait for the baton.
    pub fn enter(self: &Arc<Sched>, id: usize) {
        CTX.with(|c| *c.borrow_mut() = Some((self.clone(), id)));
        // raw pointers into the Arc kept alive by CTX for as long as this thread is simulated
        HB.with(|h| h.set(&self.heartbeat as *const AtomicU64));
        LOSTP.with(|l| l.set(&self.lost[id] as *const AtomicBool));
        ACTIVE.with(|a| a.set(true));
        let mut st = self.m.lock().unwrap();
        st.entered[id] = true;
        self.tids[id].store(unsafe { gettid() }, Ordering::SeqCst);
        self.heartbeat.fetch_add(1, Ordering::Relaxed);
        if let Strategy::PileUp { site, .. } = st.strategy {
            PILE_SITE.with(|p| p.set(site));
        }
        while st.current != id {
            st = self.cvs[id].wait(st).unwrap();
        }
        if st.released {
            PILE_SITE.with(|p| p.set(u32::MAX));
        }
        REMAINING.with(|r| r.set(st.pending_len));
        RAN.with(|r| r.set(0));
    }

    /// Called by a simulated thread when its program is finished.
    pub fn leave(self: &Arc<Sched>, id: usize) {
        ACTIVE.with(|a| a.set(false));
        HB.with(|h| h.set(std::ptr::null()));
        LOSTP.with(|l| l.set(std::ptr::null()));
        PILE_SITE.with(|p| p.set(u32::MAX));
        CTX.with(|c| *c.borrow_mut() = None);
        let mut st = self.m.lock().unwrap();
        let ran = RAN.with(|r| r.get());
        st.log.push((id as u16, ran, true));
        st.total += ran;
        st.alive[id] = false;
        st.blocked[id] = false;
        self.heartbeat.fetch_add(1, Ordering::Relaxed);
        if st.current != id {
            // this thread was running detached (its baton had been taken away while it was blocked)
            return;
        }
        let now = st.total;
        let (next, len) = st.pick(now);
        st.current = next;
        st.pending_len = len;
        drop(st);
        if next != usize::MAX {
            self.cvs[next].notify_one();
        }
    }

    /// A thread that lost its baton while blocked has woken up and reached a yield point:
    /// become schedulable again and wait for the baton.
    fn reacquire(self: &Arc<Sched>, id: usize) {
        let mut st = self.m.lock().unwrap();
        st.blocked[id] = false;
        self.lost[id].store(false, Ordering::SeqCst);
        if st.current == usize::MAX || !st.alive.get(st.current).copied().unwrap_or(false) {
            st.current = id;
            st.pending_len = 1;
        }
        while st.current != id {
            st = self.cvs[id].wait(st).unwrap();
        }
        REMAINING.with(|r| r.set(st.pending_len));
        RAN.with(|r| r.set(0));
    }

    /// Monitor side (the thread that waits for the simulated threads): the baton holder made no
    /// progress for a while, so it is presumed blocked on a lock held by a parked thread. Take the
    /// baton away and give it to somebody else. From here on the run is *tainted*: when the blocked
    /// thread wakes up it runs unsupervised until its next yield point. Returns false on deadlock
    /// (nobody left to run).
    pub fn force_unblock(self: &Arc<Sched>) -> bool {
        let mut st = self.m.lock().unwrap();
        let h = st.current;
        if h == usize::MAX {
            return st.alive.iter().any(|a| *a);
        }
        if !st.entered[h] {
            // the chosen thread has not even started yet (slow machine): nothing is blocked
            return true;
        }
        st.blocked[h] = true;
        self.lost[h].store(true, Ordering::SeqCst);
        st.tainted = true;
        st.forced_unblock += 1;
        let now = st.total;
        let (next, len) = st.pick(now);
        if next == usize::MAX {
            st.deadlocked = true;
            return false;
        }
        if next == h {
            // nobody else can run: the holder keeps the baton (it may really be blocked: the plan's wall
            // limit then ends the run as a harness error)
            st.blocked[h] = false;
            self.lost[h].store(false, Ordering::SeqCst);
            return true;
        }
        st.log.push((h as u16, 0, false));
        st.current = next;
        st.pending_len = len;
        self.cvs[next].notify_one();
        true
    }

    /// Diagnostic dump for a stalled plan.
    pub fn dump(self: &Arc<Sched>) -> String {
        let st = self.m.lock().unwrap();
        let mut t = format!(
            "current={} pending_len={} alive={:?} blocked={:?} entered={:?} parked={:?} released={} tainted={} total={} log_len={} strategy={}",
            st.current as i64,
            st.pending_len,
            st.alive,
            st.blocked,
            st.entered,
            st.parked,
            st.released,
            st.tainted,
            st.total,
            st.log.len(),
            st.strategy.to_text()
        );
        for (i, tid) in self.tids.iter().enumerate() {
            let tid = tid.load(Ordering::SeqCst);
            let state = std::fs::read_to_string(format!("/proc/self/task/{}/stat", tid)).ok().and_then(|s| s.rsplit(')').next().map(|x| x.trim_start().chars().next().unwrap_or('?'))).unwrap_or('-');
            t.push_str(&format!(" t{}:tid{}:{}:lost{}", i, tid, state, self.lost[i].load(Ordering::SeqCst) as u8));
        }
        t
    }

    /// Monitor side: is the current baton holder asleep in the kernel (state 'S' in
    /// /proc/self/task/<tid>/stat)? A holder only ever sleeps when it waits for a lock or similar
    /// inside the code under test; a holder that merely runs a long stretch is 'R'.
    pub fn holder_sleeping(self: &Arc<Sched>) -> Option<(usize, bool)> {
        let h = {
            let st = self.m.lock().unwrap();
            if st.current == usize::MAX || !st.entered.get(st.current).copied().unwrap_or(false) {
                return None;
            }
            st.current
        };
        let tid = self.tids[h].load(Ordering::SeqCst);
        if tid == 0 {
            return None;
        }
        let stat = std::fs::read_to_string(format!("/proc/self/task/{}/stat", tid)).ok()?;
        // "<tid> (<comm>) <state> ..." - comm may contain spaces, so look after the last ')'
        let state = stat.rsplit(')').next()?.trim_start().chars().next()?;
        Some((h, state == 'S'))
    }

    fn switch(self: &Arc<Sched>, id: usize, site: u32) {
        let mut st = self.m.lock().unwrap();
        let ran = RAN.with(|r| r.get());
        st.total += ran;
        let now = st.total;
        if let Strategy::PileUp { site: s0, .. } = st.strategy {
            if !st.released && site == s0 {
                st.parked[id] = true;
            }
        }
        if let Strategy::Pct { .. } = st.strategy {
            // a change point: the running thread drops below everybody
            st.lowest -= 1;
            let l = st.lowest;
            st.priorities[id] = l;
        }
        let (next, len) = st.pick(now);
        if next == id {
            // keeps the baton
            if st.released {
                PILE_SITE.with(|p| p.set(u32::MAX));
            }
            REMAINING.with(|r| r.set(len));
            st.log.push((id as u16, ran, false));
            RAN.with(|r| r.set(0));
            return;
        }
        st.log.push((id as u16, ran, false));
        st.switches += 1;
        st.switches_by_site[(site as usize) & 31] += 1;
        st.current = next;
        st.pending_len = len;
        self.cvs[next].notify_one();
        while st.current != id {
            st = self.cvs[id].wait(st).unwrap();
        }
        if st.released {
            PILE_SITE.with(|p| p.set(u32::MAX));
        }
        REMAINING.with(|r| r.set(st.pending_len));
        RAN.with(|r| r.set(0));
    }
}

/// The yield point proper: called from the hook installed into jbonsai and at op boundaries.
pub fn yield_point(site: u32) {
    if !ACTIVE.with(|a| a.get()) {
        return;
    }
    // progress signal for the monitor, and: did the monitor take our baton while we were blocked?
    let hb = HB.with(|h| h.get());
    let lp = LOSTP.with(|l| l.get());
    if !hb.is_null() {
        // SAFETY: both point into the Arc<Sched> that CTX keeps alive while ACTIVE is set
        unsafe { (*hb).fetch_add(1, Ordering::Relaxed) };
        if unsafe { (*lp).load(Ordering::Relaxed) } {
            let ctx = CTX.with(|c| c.borrow().clone());
            if let Some((s, id)) = ctx {
                s.reacquire(id);
            }
            return;
        }
    }
    RAN.with(|r| r.set(r.get() + 1));
    let left = REMAINING.with(|r| r.get());
    let pile = PILE_SITE.with(|p| p.get()) == site;
    if left > 1 && !pile {
        REMAINING.with(|r| r.set(left - 1));
        return;
    }
    let ctx = CTX.with(|c| c.borrow().clone());
    if let Some((s, id)) = ctx {
        s.switch(id, site);
    }
}

/// The calling simulated thread cannot proceed until another simulated thread has acted: it gives the baton
/// away and is not scheduled again before `notify_event` (or before nobody else can run).
pub fn wait_event() {
    if !ACTIVE.with(|a| a.get()) {
        return;
    }
    let ctx = CTX.with(|c| c.borrow().clone());
    if let Some((s, id)) = ctx {
        {
            let mut st = s.m.lock().unwrap();
            st.waiting[id] = true;
        }
        RAN.with(|r| r.set(r.get() + 1));
        s.switch(id, 0);
    }
}

/// Something a waiting thread may be waiting for has happened: all waiters become runnable again.
pub fn notify_event() {
    if !ACTIVE.with(|a| a.get()) {
        return;
    }
    let ctx = CTX.with(|c| c.borrow().clone());
    if let Some((s, _)) = ctx {
        let mut st = s.m.lock().unwrap();
        for w in st.waiting.iter_mut() {
            *w = false;
        }
    }
}

pub fn in_simulated_thread() -> bool {
    ACTIVE.with(|a| a.get())
}
