//! SplitMix64 / xoshiro256** — implemented here so the stream never changes under us.

#[derive(Clone, Debug)]
pub struct Rng {
    s: [u64; 4],
}

pub fn splitmix(x: &mut u64) -> u64 {
    *x = x.wrapping_add(0x9E37_79B9_7F4A_7C15);
    let mut z = *x;
    z = (z ^ (z >> 30)).wrapping_mul(0xBF58_476D_1CE4_E5B9);
    z = (z ^ (z >> 27)).wrapping_mul(0x94D0_49BB_1331_11EB);
    z ^ (z >> 31)
}

/// Mix several integers into one seed.
pub fn mix(parts: &[u64]) -> u64 {
    let mut acc = 0x243F_6A88_85A3_08D3u64;
    for p in parts {
        let mut x = acc ^ p.wrapping_mul(0x9E37_79B9_7F4A_7C15);
        acc = splitmix(&mut x).rotate_left(17) ^ p;
        let mut y = acc;
        acc = splitmix(&mut y);
    }
    acc
}

/// FNV-1a style 64-bit hash of bytes (for signatures / distinct counting).
pub fn hash_bytes(b: &[u8]) -> u64 {
    let mut h = 0xcbf2_9ce4_8422_2325u64;
    for x in b {
        h ^= *x as u64;
        h = h.wrapping_mul(0x0000_0100_0000_01B3);
    }
    let mut y = h;
    splitmix(&mut y)
}

pub fn hash_f64s(v: &[f64]) -> u64 {
    let mut h = 0xcbf2_9ce4_8422_2325u64 ^ (v.len() as u64);
    for x in v {
        // canonicalise NaN: the oracle identifies all NaNs
        let b = if x.is_nan() { 0x7ff8_0000_0000_0000 } else { x.to_bits() };
        h ^= b;
        h = h.wrapping_mul(0x0000_0100_0000_01B3);
        h ^= h >> 29;
    }
    let mut y = h;
    splitmix(&mut y)
}

impl Rng {
    pub fn new(seed: u64) -> Self {
        let mut x = seed;
        let s = [splitmix(&mut x), splitmix(&mut x), splitmix(&mut x), splitmix(&mut x)];
        Rng { s }
    }
    pub fn next_u64(&mut self) -> u64 {
        let r = self.s[1].wrapping_mul(5).rotate_left(7).wrapping_mul(9);
        let t = self.s[1] << 17;
        self.s[2] ^= self.s[0];
        self.s[3] ^= self.s[1];
        self.s[1] ^= self.s[2];
        self.s[0] ^= self.s[3];
        self.s[2] ^= t;
        self.s[3] = self.s[3].rotate_left(45);
        r
    }
    /// uniform in 0..n (n > 0)
    pub fn below(&mut self, n: usize) -> usize {
        debug_assert!(n > 0);
        ((self.next_u64() as u128 * n as u128) >> 64) as usize
    }
    /// uniform in a..=b
    pub fn range(&mut self, a: usize, b: usize) -> usize {
        a + self.below(b - a + 1)
    }
    pub fn irange(&mut self, a: i64, b: i64) -> i64 {
        a + self.below((b - a + 1) as usize) as i64
    }
    /// uniform in [0,1)
    pub fn unit(&mut self) -> f64 {
        (self.next_u64() >> 11) as f64 / (1u64 << 53) as f64
    }
    pub fn uniform(&mut self, a: f64, b: f64) -> f64 {
        a + (b - a) * self.unit()
    }
    pub fn chance(&mut self, p: f64) -> bool {
        self.unit() < p
    }
    pub fn pick<'a, T>(&mut self, v: &'a [T]) -> &'a T {
        &v[self.below(v.len())]
    }
    /// index drawn according to integer weights (sum > 0)
    pub fn weighted(&mut self, w: &[u32]) -> usize {
        let total: u64 = w.iter().map(|x| *x as u64).sum();
        debug_assert!(total > 0);
        let mut r = self.below(total as usize) as u64;
        for (i, x) in w.iter().enumerate() {
            if r < *x as u64 {
                return i;
            }
            r -= *x as u64;
        }
        w.len() - 1
    }
    pub fn shuffle<T>(&mut self, v: &mut [T]) {
        for i in (1..v.len()).rev() {
            let j = self.below(i + 1);
            v.swap(i, j);
        }
    }
    /// geometric-ish run length with the given mean (>= 1)
    pub fn run_len(&mut self, mean: f64) -> u64 {
        if mean <= 1.0 {
            return 1;
        }
        let u = 1.0 - self.unit();
        let l = (-u.ln() * (mean - 1.0)).floor() as u64;
        1 + l
    }
}
