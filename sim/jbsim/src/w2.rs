//! World W2 ("disk"): fault-injected voice files fed to the real loader.
//!
//! Case space: for every base file, the complete single-fault enumeration of the structured
//! fault kinds, followed by seeded double faults. Case `idx` is a pure function of
//! (VERIF_SEED, tier, idx), so parent and workers agree without exchanging case lists.

use std::collections::BTreeMap;

use crate::env::{guarded, Env};
use crate::ops::VoiceRef;
use crate::rng::{mix, Rng};
use crate::voicegen::{Meta, SectionMap, VoiceSpec};

#[derive(Clone, Debug, PartialEq)]
pub enum Fault {
    /// replace bytes[start..end] with `bytes` (covers truncation, flips, header edits, token edits)
    Splice { kind: String, start: usize, end: usize, bytes: Vec<u8> },
    /// torn write: each `sector`-sized block survives with probability keep_milli/1000 (block 0 always);
    /// lost blocks read as zeros (fill 0) or as the same block of another valid voice (fill 1)
    Torn { sector: usize, seed: u64, keep_milli: u32, fill: u8 },
    /// failing system call: 0 = path missing, 1 = path is a directory, 2 = empty file
    Io { kind: u8 },
    /// several splices of one logical fault, given with offsets into the *original* bytes and ordered
    /// from the highest offset down (so applying them in order keeps the remaining offsets valid)
    Multi { kind: String, parts: Vec<(usize, usize, Vec<u8>)> },
}

impl Fault {
    pub fn kind(&self) -> String {
        match self {
            Fault::Splice { kind, .. } => kind.clone(),
            Fault::Torn { fill, .. } => if *fill == 0 { "torn_zero".into() } else { "torn_other".into() },
            Fault::Io { .. } => "io".into(),
            Fault::Multi { kind, .. } => kind.clone(),
        }
    }
    pub fn to_text(&self) -> String {
        match self {
            Fault::Splice { kind, start, end, bytes } => format!("splice {} {} {} {}", kind, start, end, hex_rle(bytes)),
            Fault::Torn { sector, seed, keep_milli, fill } => format!("torn {} {} {} {}", sector, seed, keep_milli, fill),
            Fault::Io { kind } => format!("io {}", kind),
            Fault::Multi { kind, parts } => format!("multi {} {}", kind, parts.iter().map(|(a, b, x)| format!("{}:{}:{}", a, b, hex_rle(x))).collect::<Vec<_>>().join("|")),
        }
    }
    pub fn from_text(s: &str) -> Option<Fault> {
        let w: Vec<&str> = s.split_whitespace().collect();
        match *w.first()? {
            "splice" => Some(Fault::Splice { kind: w.get(1)?.to_string(), start: w.get(2)?.parse().ok()?, end: w.get(3)?.parse().ok()?, bytes: unhex_rle(w.get(4).copied().unwrap_or("-"))? }),
            "torn" => Some(Fault::Torn { sector: w.get(1)?.parse().ok()?, seed: w.get(2)?.parse().ok()?, keep_milli: w.get(3)?.parse().ok()?, fill: w.get(4)?.parse().ok()? }),
            "io" => Some(Fault::Io { kind: w.get(1)?.parse().ok()? }),
            "multi" => {
                let mut parts = Vec::new();
                for p in w.get(2)?.split('|') {
                    let mut it = p.splitn(3, ':');
                    parts.push((it.next()?.parse().ok()?, it.next()?.parse().ok()?, unhex_rle(it.next()?)?));
                }
                Some(Fault::Multi { kind: w.get(1)?.to_string(), parts })
            }
            _ => None,
        }
    }
}

/// hex with a run-length form for long repeats: "r<count>x<hex of unit>" segments joined by '.'
fn hex_rle(b: &[u8]) -> String {
    if b.len() < 4096 {
        return hex(b);
    }
    // find a short period
    for period in 1..=64usize {
        if b.len() % period == 0 && b.chunks(period).all(|c| c == &b[..period]) {
            return format!("r{}x{}", b.len() / period, hex(&b[..period]));
        }
    }
    hex(b)
}
fn unhex_rle(s: &str) -> Option<Vec<u8>> {
    if let Some(rest) = s.strip_prefix('r') {
        let (n, unit) = rest.split_once('x')?;
        let u = unhex(unit)?;
        let n: usize = n.parse().ok()?;
        let mut v = Vec::with_capacity(n * u.len());
        for _ in 0..n {
            v.extend_from_slice(&u);
        }
        return Some(v);
    }
    unhex(s)
}

fn hex(b: &[u8]) -> String {
    if b.is_empty() {
        return "-".into();
    }
    let mut s = String::with_capacity(b.len() * 2);
    for x in b {
        s.push_str(&format!("{:02x}", x));
    }
    s
}
fn unhex(s: &str) -> Option<Vec<u8>> {
    if s == "-" {
        return Some(vec![]);
    }
    if s.len() % 2 != 0 {
        return None;
    }
    (0..s.len() / 2).map(|i| u8::from_str_radix(&s[2 * i..2 * i + 2], 16).ok()).collect()
}

#[derive(Clone, Debug)]
pub struct Case {
    pub base: usize,
    pub faults: Vec<Fault>,
    pub hash_seed: u64,
    /// fault *sequence*: the valid base file is installed at the path and loaded first, then replaced
    /// in place by the faulted bytes (a re-download over a voice the process has already used)
    pub after_good: bool,
    /// 0: the faulted file is loaded alone; 1: `Engine::load(&[valid base, faulted])`; 2: `Engine::load(&[faulted, valid base])`
    pub multi: u8,
}

impl Case {
    pub fn kind(&self) -> String {
        self.faults.iter().map(|f| f.kind()).collect::<Vec<_>>().join("+")
    }
}

pub fn apply(base: &[u8], other: &[u8], f: &Fault) -> Vec<u8> {
    match f {
        Fault::Splice { start, end, bytes, .. } => {
            let s = (*start).min(base.len());
            let e = (*end).min(base.len()).max(s);
            let mut out = Vec::with_capacity(base.len() + bytes.len());
            out.extend_from_slice(&base[..s]);
            out.extend_from_slice(bytes);
            out.extend_from_slice(&base[e..]);
            out
        }
        Fault::Torn { sector, seed, keep_milli, fill } => {
            let mut out = base.to_vec();
            let mut r = Rng::new(*seed);
            let n = base.len().div_ceil(*sector);
            for k in 1..n {
                if r.below(1000) as u32 >= *keep_milli {
                    let a = k * sector;
                    let b = ((k + 1) * sector).min(base.len());
                    for i in a..b {
                        out[i] = if *fill == 1 { other.get(i).copied().unwrap_or(0) } else { 0 };
                    }
                }
            }
            out
        }
        Fault::Io { .. } => base.to_vec(),
        Fault::Multi { parts, .. } => {
            let mut cur = base.to_vec();
            for (a, b, x) in parts {
                let s = (*a).min(cur.len());
                let e = (*b).min(cur.len()).max(s);
                cur.splice(s..e, x.iter().copied());
            }
            cur
        }
    }
}

pub struct Base {
    pub vref: VoiceRef,
    pub bytes: Vec<u8>,
    pub map: SectionMap,
    pub heavy: bool,
}

pub fn base_specs(tier: &str) -> Vec<VoiceRef> {
    let m = |nstate, nstreams, mcp, lpf, win, gvm, gvl, stage, lg| Meta { nstate, nstreams, mcp_len: mcp, lpf_len: lpf, win, gv_mcp: gvm, gv_lf0: gvl, stage, ln_gain: lg, alpha_milli: 420, rate: 16000, fperiod: 8 };
    let mut v = vec![
        VoiceRef::Gen(VoiceSpec { meta: m(2, 3, 4, 3, 2, true, true, 0, false), body: 101 }),
        VoiceRef::Gen(VoiceSpec { meta: m(5, 3, 8, 5, 3, false, true, 0, false), body: 102 }),
        VoiceRef::Gen(VoiceSpec { meta: m(1, 2, 3, 1, 0, false, false, 2, true), body: 103 }),
        // a valid voice whose header carries non-ASCII text (a Japanese COMMENT): every single fault also
        // meets multi-byte characters in error excerpts, column arithmetic and line handling
        VoiceRef::Gen(VoiceSpec { meta: m(2, 3, 3, 3, 1, false, false, 0, false), body: 107 | crate::voicegen::NONASCII_TEXT }),
        VoiceRef::Bundled,
    ];
    if tier == "thorough" {
        v.push(VoiceRef::Gen(VoiceSpec { meta: m(7, 3, 12, 7, 1, true, false, 0, false), body: 104 }));
        v.push(VoiceRef::Gen(VoiceSpec { meta: m(3, 3, 2, 1, 2, true, true, 3, false), body: 105 }));
        v.push(VoiceRef::Gen(VoiceSpec { meta: m(4, 2, 6, 3, 2, false, false, 0, false), body: 106 }));
    }
    v
}

pub fn load_bases(env: &mut Env, tier: &str) -> Result<Vec<Base>, String> {
    let mut out = Vec::new();
    for vref in base_specs(tier) {
        let bytes = env.voice_bytes(&vref)?;
        let map = SectionMap::parse(&bytes).ok_or_else(|| format!("cannot map sections of base {}", vref.to_text()))?;
        let heavy = matches!(vref, VoiceRef::Bundled);
        out.push(Base { vref, bytes, map, heavy });
    }
    Ok(out)
}

fn sp(kind: &str, start: usize, end: usize, bytes: &[u8]) -> Fault {
    Fault::Splice { kind: kind.to_string(), start, end, bytes: bytes.to_vec() }
}

/// Complete single-fault enumeration for one base file (sampled, seeded, only where the base is
/// too large to enumerate: token / flip sites inside the bundled voice's 300 KB of tree text).
pub fn enumerate_singles(b: &Base, seed: u64, thorough: bool) -> Vec<Fault> {
    let m = &b.map;
    let bytes = &b.bytes;
    let len = bytes.len();
    let mut out: Vec<Fault> = Vec::new();
    let mut r = Rng::new(mix(&[seed, 0x5157, len as u64]));

    // --- truncation at every boundary +-1
    let mut cuts: Vec<usize> = vec![0, 1, len.saturating_sub(1), m.data_start, m.data_start.saturating_sub(1), m.data_start + 1];
    for (_, o) in &m.section_starts {
        cuts.extend([o.saturating_sub(1), *o, o + 1]);
    }
    for l in &m.lines {
        cuts.push(l.start);
        cuts.push(l.end.saturating_sub(1));
    }
    for rg in &m.ranges {
        let a = m.data_start + rg.a;
        let e = m.data_start + rg.b + 1;
        cuts.extend([a.saturating_sub(1), a, a + 1, e.saturating_sub(1), e, e + 1]);
    }
    for _ in 0..if thorough { 200 } else { 40 } {
        cuts.push(r.below(len));
    }
    cuts.sort_unstable();
    cuts.dedup();
    for c in cuts {
        if c < len {
            out.push(sp("truncate", c, len, &[]));
        }
    }

    // --- every header number replaced
    for n in &m.numbers {
        let v = n.value;
        let reps: Vec<String> = vec![
            "0".into(),
            "1".into(),
            v.wrapping_sub(1).to_string(),
            v.wrapping_add(1).to_string(),
            "4000000000".into(),
            "18446744073709551615".into(),
            "18446744073709551616".into(),
            "100000000000000000000000".into(),
            "-5".into(),
            "abc".into(),
            "".into(),
            format!(" {}", v),
            format!("{} ", v),
            format!("\t{}", v),
            format!("+{}", v),
            format!("0x{:x}", v),
            format!("{}.0", v),
            format!("{}e3", v),
            format!("00000000000000000000000000000000{}", v),
            // valid UTF-8, non-ASCII "digits" and friends
            format!("{}\u{660}", v),
            "\u{ff12}\u{ff14}\u{ff10}".to_string(),
            "\u{ff12}".to_string(),
            "\u{bd}".to_string(),
            "\u{967}\u{968}".to_string(),
            format!("\u{663}{}", v),
            format!("{}\u{200b}", v),
            format!("{}\u{e9}", v),
        ];
        for rep in reps {
            if rep.as_bytes() != &bytes[n.start..n.end] {
                out.push(sp("hdr_number", n.start, n.end, rep.as_bytes()));
            }
        }
    }

    // --- section offsets swapped / inverted / beyond EOF / overlapping
    let datalen = len - m.data_start;
    for rg in &m.ranges {
        let (a, bb) = (rg.a, rg.b);
        let reps = vec![
            format!("{}-{}", bb, a),
            format!("{}-{}", a, a.saturating_sub(1)),
            format!("{}-{}", a, datalen + 1000),
            format!("{}-{}", datalen + 5, datalen + 10),
            format!("{}-{}", a, bb + 10),
            format!("{}-{}", a, bb.saturating_sub(1)),
            format!("0-{}", bb),
            format!("{}-{}", a + 1, bb),
            format!("{}-{}", a, datalen.saturating_sub(1)),
            format!("{}-18446744073709551615", a),
            format!("{}", a),
            format!("{}-{}-{}", a, bb, bb),
        ];
        for rep in reps {
            out.push(sp("range_swap", rg.start, rg.end, rep.as_bytes()));
        }
    }

    // --- header lines deleted / duplicated / swapped with the next
    for (i, l) in m.lines.iter().enumerate() {
        out.push(sp("line_del", l.start, l.end, &[]));
        let mut dup = bytes[l.start..l.end].to_vec();
        dup.extend_from_slice(&bytes[l.start..l.end]);
        out.push(sp("line_dup", l.start, l.end, &dup));
        if let Some(n) = m.lines.get(i + 1) {
            if n.start == l.end && n.section == l.section {
                let mut sw = bytes[n.start..n.end].to_vec();
                sw.extend_from_slice(&bytes[l.start..l.end]);
                out.push(sp("line_swap", l.start, n.end, &sw));
            }
        }
        // list-valued lines (STREAM_TYPE, OPTION[..], STREAM_WIN[..], GV_OFF_CONTEXT): one item more / less / twice
        {
            let vend = l.end.saturating_sub(1); // before the '\n'
            if l.value_start < vend {
                let val = &bytes[l.value_start..vend];
                let items: Vec<&[u8]> = val.split(|b| *b == b',').collect();
                let last = items.last().copied().unwrap_or(&[]);
                if !last.is_empty() {
                    let mut more = val.to_vec();
                    more.push(b',');
                    more.extend_from_slice(last);
                    out.push(sp("list_item_dup", l.value_start, vend, &more));
                    let mut extra = val.to_vec();
                    extra.extend_from_slice(b",BAP");
                    out.push(sp("list_item_new", l.value_start, vend, &extra));
                    if items.len() >= 2 {
                        let keep = val.len() - last.len() - 1;
                        out.push(sp("list_item_drop", l.value_start, vend, &val[..keep]));
                        let mut rev: Vec<u8> = Vec::new();
                        for (k, it) in items.iter().rev().enumerate() {
                            if k > 0 {
                                rev.push(b',');
                            }
                            rev.extend_from_slice(it);
                        }
                        out.push(sp("list_reversed", l.value_start, vend, &rev));
                    }
                }
            }
        }
        // a stray character in front of the line (LF CR mix-ups, editor artefacts, indentation)
        for lead in [&b"\r"[..], b" ", b"\t", b"\n", b"\r\r", b"\x0b"] {
            out.push(sp("line_lead", l.start, l.start, lead));
        }
        // key mangled, value emptied, colon removed
        out.push(sp("line_key", l.start, l.start + 1, b"X"));
        out.push(sp("line_value_empty", l.value_start, l.end.saturating_sub(1), &[]));
        out.push(sp("line_colon", l.value_start - 1, l.value_start, &[]));
    }
    // section tags mangled / removed
    for (name, o) in &m.section_starts {
        out.push(sp("section_tag", *o, o + name.len(), b"[BOGUS]"));
        out.push(sp("section_tag", *o, o + name.len() + 1, &[]));
    }

    // --- whole-header rewrites: Windows line endings, a duplicated section, garbage after the data
    {
        let hdr = &bytes[..m.data_start];
        let mut crlf = Vec::with_capacity(hdr.len() + 64);
        for b in hdr {
            if *b == b'\n' {
                crlf.push(b'\r');
            }
            crlf.push(*b);
        }
        out.push(sp("crlf_header", 0, m.data_start, &crlf));
        // ... and the other way round: LF CR
        let mut lfcr = Vec::with_capacity(hdr.len() + 64);
        for b in hdr {
            lfcr.push(*b);
            if *b == b'\n' {
                lfcr.push(b'\r');
            }
        }
        out.push(sp("lfcr_header", 0, m.data_start, &lfcr));
        for l in m.lines.iter().step_by(3) {
            out.push(sp("crlf_line", l.end.saturating_sub(1), l.end.saturating_sub(1), b"\r"));
        }
        for w in m.section_starts.windows(2) {
            let (a, b) = (w[0].1, w[1].1);
            let mut dup = bytes[a..b].to_vec();
            dup.extend_from_slice(&bytes[a..b]);
            out.push(sp("dup_section", a, b, &dup));
            // section emptied (tag kept)
            out.push(sp("empty_section", a + w[0].0.len() + 1, b, &[]));
        }
        out.push(sp("trailing_garbage", len, len, b"\n[EXTRA]\nKEY:1\n"));
        out.push(sp("trailing_garbage", len, len, &[0u8; 64]));
        out.push(sp("leading_garbage", 0, 0, b"\xef\xbb\xbf"));
        out.push(sp("leading_garbage", 0, 0, b"\n\n\n"));
        out.push(sp("leading_garbage", 0, 0, b"garbage\n"));
    }

    // --- product-preserving / cross-field pairs: two header values changed together so that the sizes
    //     derived from them still agree (a lone change fails early; the pair reaches deeper code)
    {
        let num_of = |key: &str| m.numbers.iter().find(|n| n.key == key);
        let mut pair = |a: &crate::voicegen::NumSpan, av: String, b: &crate::voicegen::NumSpan, bv: String, out: &mut Vec<Fault>| {
            // later offset first, so that the earlier splice's offsets stay valid
            let (first, fv, second, sv) = if a.start > b.start { (a, av, b, bv) } else { (b, bv, a, av) };
            out.push(Fault::Multi { kind: "hdr_pair".into(), parts: vec![(first.start, first.end, fv.into_bytes()), (second.start, second.end, sv.into_bytes())] });
        };
        let streams: Vec<String> = m.lines.iter().filter_map(|l| l.key.strip_prefix("VECTOR_LENGTH[").map(|x| x.trim_end_matches(']').to_string())).collect();
        for st in &streams {
            if let (Some(vl), Some(nw)) = (num_of(&format!("VECTOR_LENGTH[{}]", st)), num_of(&format!("NUM_WINDOWS[{}]", st))) {
                let (a, b) = (vl.value, nw.value);
                if a != b {
                    pair(vl, b.to_string(), nw, a.to_string(), &mut out); // swapped
                }
                pair(vl, "1".into(), nw, (a * b).to_string(), &mut out);
                pair(vl, (a * b).to_string(), nw, "1".into(), &mut out);
                if a % 2 == 0 {
                    pair(vl, (a / 2).to_string(), nw, (b * 2).to_string(), &mut out);
                }
                if b % 2 == 0 {
                    pair(vl, (a * 2).to_string(), nw, (b / 2).to_string(), &mut out);
                }
                pair(vl, (a + 1).to_string(), nw, (b.saturating_sub(1)).to_string(), &mut out);
                pair(vl, (a.saturating_sub(1)).to_string(), nw, (b + 1).to_string(), &mut out);
            }
        }
        if let (Some(ns), Some(nst)) = (num_of("NUM_STREAMS"), num_of("NUM_STATES")) {
            pair(ns, nst.value.to_string(), nst, ns.value.to_string(), &mut out);
        }
    }

    // --- size stress: legal-looking but enormous structures (deep trees, long lists, long lines)
    if !b.heavy || thorough {
        let tree_ranges: Vec<&crate::voicegen::RangeSpan> = m.ranges.iter().filter(|r| r.key.contains("TREE")).collect();
        if let Some(tr) = tree_ranges.last() {
            // the big structure is appended after the data and the range is pointed at it
            let mk = |body: Vec<u8>, out: &mut Vec<Fault>, kind: &str| {
                let a = len - m.data_start;
                let e = a + body.len() - 1;
                out.push(Fault::Multi { kind: kind.into(), parts: vec![(len, len, body), (tr.start, tr.end, format!("{}-{}", a, e).into_bytes())] });
            };
            for depth in [2_000usize, 60_000, 250_000] {
                // chain-shaped tree: node k asks a question, "no" -> leaf, "yes" -> node k+1
                let mut t = String::from("QS Q1 { \"*-a+*\" }\n\n{*}[2]\n{\n");
                for k in 0..depth {
                    let next = if k + 1 < depth { format!("-{}", k + 1) } else { "\"x_1\"".to_string() };
                    t.push_str(&format!(" {} Q1 \"x_1\" {} \n", if k == 0 { "0".to_string() } else { format!("-{}", k) }, next));
                }
                t.push_str("}\n");
                mk(t.into_bytes(), &mut out, "stress_deep_tree");
            }
            for depth in [40usize, 90, 400] {
                let mut t = String::from("QS Q1 { \"*-a+*\" }\n\n{*}[2]\n{\n");
                for k in 0..depth {
                    let next = if k + 1 < depth { format!("-{}", k + 1) } else { "\"x_1\"".to_string() };
                    t.push_str(&format!(" {} Q1 {} {} \n", if k == 0 { "0".to_string() } else { format!("-{}", k) }, next, next));
                }
                t.push_str("}\n");
                mk(t.into_bytes(), &mut out, "stress_ladder_tree");
            }
            {
                // a cycle: the last node points back at the root
                let mut t = String::from("QS Q1 { \"*-a+*\" }\n\n{*}[2]\n{\n");
                for k in 0..6 {
                    let next = if k + 1 < 6 { format!("-{}", k + 1) } else { "0".to_string() };
                    t.push_str(&format!(" {} Q1 \"x_1\" {} \n", if k == 0 { "0".to_string() } else { format!("-{}", k) }, next));
                }
                t.push_str("}\n");
                mk(t.into_bytes(), &mut out, "stress_cyclic_tree");
            }
            {
                let mut t = String::new();
                for k in 0..60_000 {
                    t.push_str(&format!("QS Q{} {{ \"*-a+*\" }}\n", k));
                }
                t.push_str("\n{*}[2]\n \"x_1\"\n");
                mk(t.into_bytes(), &mut out, "stress_many_questions");
            }
            {
                let mut t = String::from("QS Q1 { \"*-a+*\" }\n\n");
                for k in 0..60_000 {
                    t.push_str(&format!("{{*}}[{}]\n \"x_1\"\n\n", 2 + k % 5));
                }
                mk(t.into_bytes(), &mut out, "stress_many_trees");
            }
            {
                let mut t = String::from("QS Q1 { ");
                for k in 0..80_000 {
                    t.push_str(if k == 0 { "\"*-a+*\"" } else { ",\"*-a+*\"" });
                }
                t.push_str(" }\n\n{*}[2]\n \"x_1\"\n");
                mk(t.into_bytes(), &mut out, "stress_many_patterns");
            }
        }
        if let Some(l) = m.lines.iter().find(|l| l.key == "COMMENT") {
            out.push(sp("stress_long_value", l.value_start, l.value_start, &vec![b'x'; 2_000_000]));
        }
        if let Some(l) = m.lines.iter().find(|l| l.key == "STREAM_TYPE") {
            out.push(sp("stress_long_value", l.value_start, l.value_start, "MCP,".repeat(200_000).as_bytes()));
        }
        if let Some(l) = m.lines.iter().find(|l| l.key == "GV_OFF_CONTEXT") {
            out.push(sp("stress_long_value", l.value_start, l.value_start, "\"*-a+*\",".repeat(100_000).as_bytes()));
        }
        if let Some(l) = m.lines.iter().find(|l| l.key.starts_with("OPTION[")) {
            out.push(sp("stress_long_value", l.value_start, l.value_start, "K=1,".repeat(200_000).as_bytes()));
        }
        if let Some(l) = m.lines.first() {
            out.push(sp("stress_many_lines", l.start, l.start, "JUNK_KEY:1\n".repeat(150_000).as_bytes()));
        }
        if let Some(w) = m.text_ranges.iter().find(|r| r.kind == "win") {
            let mut t = String::from("100000");
            for _ in 0..100_000 {
                t.push_str(" 0.5");
            }
            t.push('\n');
            // window appended after the data, its STREAM_WIN entry pointed there
            if let Some(rg) = m.ranges.iter().find(|r| r.key.starts_with("STREAM_WIN") && m.data_start + r.a == w.start) {
                let a = len - m.data_start;
                let body = t.into_bytes();
                let e = a + body.len() - 1;
                out.push(Fault::Multi { kind: "stress_huge_window".into(), parts: vec![(len, len, body), (rg.start, rg.end, format!("{}-{}", a, e).into_bytes())] });
            }
        }
    }

    // --- non UTF-8 bytes in each header line value and at section edges
    for l in &m.lines {
        for b in [0x80u8, 0xff, 0xc3] {
            out.push(sp("non_utf8", l.value_start, l.value_start, &[b]));
        }
        out.push(sp("non_utf8", l.start, l.start + 1, &[0xfe]));
        // valid multi-byte UTF-8 in keys and values
        out.push(sp("unicode_value", l.value_start, l.value_start, "\u{e9}".as_bytes()));
        out.push(sp("unicode_value", l.end.saturating_sub(1), l.end.saturating_sub(1), "\u{65e5}\u{672c}".as_bytes()));
        out.push(sp("unicode_key", l.start + 1, l.start + 1, "\u{200b}".as_bytes()));
        out.push(sp("unicode_key", l.value_start.saturating_sub(1), l.value_start.saturating_sub(1), "\u{ff3d}".as_bytes()));
    }

    // --- tokens in tree text
    let token_budget = if b.heavy { if thorough { 400 } else { 60 } } else { usize::MAX };
    for tr in m.text_ranges.iter() {
        let mut sites: Vec<Fault> = Vec::new();
        if tr.kind == "win" {
            // window rows: count changed, coefficient mangled
            let txt = &bytes[tr.start..tr.end];
            if let Some(spc) = txt.iter().position(|c| *c == b' ') {
                for rep in ["0", "2", "7", "99999999999", "-1", "x"] {
                    sites.push(sp("win_count", tr.start, tr.start + spc, rep.as_bytes()));
                }
                sites.push(sp("win_coef", tr.start + spc + 1, tr.end.saturating_sub(1), b"1e99999 nan"));
                sites.push(sp("win_coef", tr.start + spc + 1, tr.end.saturating_sub(1), b"abc"));
                sites.push(sp("win_coef", tr.start + spc, tr.end, &[]));
            }
            out.extend(sites);
            continue;
        }
        let txt = &bytes[tr.start..tr.end];
        let mut off = 0usize;
        for line in txt.split(|c| *c == b'\n') {
            let ls = tr.start + off;
            let le = ls + line.len();
            off += line.len() + 1;
            if line.is_empty() {
                continue;
            }
            let text = String::from_utf8_lossy(line).to_string();
            let words: Vec<(usize, usize)> = {
                let mut v = Vec::new();
                let mut i = 0;
                let lb = line;
                while i < lb.len() {
                    if lb[i] != b' ' {
                        let st = i;
                        while i < lb.len() && lb[i] != b' ' {
                            i += 1;
                        }
                        v.push((ls + st, ls + i));
                    } else {
                        i += 1;
                    }
                }
                v
            };
            if text.starts_with("QS ") && words.len() >= 2 {
                sites.push(sp("tok_qs_rename", words[1].1, words[1].1, b"X"));
                sites.push(sp("tok_qs_del", ls, (le + 1).min(tr.end), &[]));
                if let Some(p) = line.iter().position(|c| *c == b'{') {
                    sites.push(sp("tok_brace", ls + p, ls + p + 1, &[]));
                }
                if let Some(p) = line.iter().rposition(|c| *c == b'}') {
                    sites.push(sp("tok_brace", ls + p, ls + p + 1, &[]));
                }
                if let Some(p) = line.iter().position(|c| *c == b'"') {
                    sites.push(sp("tok_quote", ls + p, ls + p + 1, &[]));
                    sites.push(sp("tok_pattern", ls + p + 1, ls + p + 2, b"\xe3\x81\x82"));
                    sites.push(sp("tok_pattern", ls + p + 1, ls + p + 1, b"(["));
                    // numeric range patterns at the edge of the label fields' integer types
                    if let Some(q) = line[p + 1..].iter().position(|c| *c == b'"') {
                        for pat in ["*/A:127+*", "*/A:13?+*", "*/A:-1?+*", "*/A:-128+*", "*/F:255_*", "*/F:26?_*", "*/F:99999999999999999999_*", "*/A:?+*", "*"] {
                            sites.push(sp("tok_pattern_num", ls + p + 1, ls + p + 1 + q, pat.as_bytes()));
                        }
                    }
                }
                sites.push(sp("tok_qs_empty", words[1].1, le, b" { }"));
                sites.push(sp("tok_unicode", words[1].0, words[1].0, "\u{e9}".as_bytes()));
                sites.push(sp("tok_unicode", le.saturating_sub(1), le.saturating_sub(1), "\u{65e5}".as_bytes()));
            } else if text.starts_with("{*}[") {
                if let (Some(a), Some(e)) = (line.iter().position(|c| *c == b'['), line.iter().position(|c| *c == b']')) {
                    for rep in ["99", "-1", "0", "1", "18446744073709551615", "99999999999999999999999", "x", ""] {
                        sites.push(sp("tok_state", ls + a + 1, ls + e, rep.as_bytes()));
                    }
                    sites.push(sp("tok_brace", ls + e, ls + e + 1, &[]));
                }
                sites.push(sp("tok_tree_head", ls, ls + 3, b"{x}"));
            } else if words.len() == 4 && (line.iter().find(|c| **c != b' ').map(|c| c.is_ascii_digit() || *c == b'-').unwrap_or(false)) {
                // node line: id question no yes
                sites.push(sp("tok_node_id", words[0].0, words[0].1, b"-987654"));
                sites.push(sp("tok_node_id", words[0].0, words[0].1, b"99999999999999999999999"));
                sites.push(sp("tok_question_ref", words[1].1, words[1].1, b"X"));
                for k in [2usize, 3] {
                    let w = &bytes[words[k].0..words[k].1];
                    if w.first().map(|c| *c == b'-' || c.is_ascii_digit()).unwrap_or(false) {
                        sites.push(sp("tok_child_node", words[k].0, words[k].1, b"-987654"));
                        sites.push(sp("tok_child_node", words[k].0, words[k].1, b"\"leaf_1\""));
                    } else {
                        // leaf name: trailing digits removed / index out of range / quote dropped
                        let digits = w.iter().rev().skip_while(|c| **c == b'"').take_while(|c| c.is_ascii_digit()).count();
                        let q = if w.last() == Some(&b'"') { 1 } else { 0 };
                        let ds = words[k].1 - q - digits;
                        sites.push(sp("tok_leaf_nodigit", ds, words[k].1 - q, &[]));
                        sites.push(sp("tok_leaf_index", ds, words[k].1 - q, b"987654"));
                        sites.push(sp("tok_leaf_index", ds, words[k].1 - q, b"0"));
                        sites.push(sp("tok_leaf_index", ds, words[k].1 - q, b"99999999999999999999999999"));
                        if q == 1 {
                            sites.push(sp("tok_quote", words[k].1 - 1, words[k].1, &[]));
                        }
                        sites.push(sp("tok_child_node", words[k].0, words[k].1, b"-987654"));
                    }
                }
                sites.push(sp("tok_node_del", ls, (le + 1).min(tr.end), &[]));
                sites.push(sp("tok_node_field_del", words[3].0, words[3].1, &[]));
            } else if text.trim() == "{" || text.trim() == "}" {
                sites.push(sp("tok_brace", ls, le, &[]));
                sites.push(sp("tok_brace", ls, le, b"{{"));
            } else if words.len() == 1 {
                // single-leaf tree body
                sites.push(sp("tok_leaf_nodigit", words[0].0, words[0].1, b"\"leaf\""));
                sites.push(sp("tok_leaf_index", words[0].0, words[0].1, b"\"leaf_987654\""));
                sites.push(sp("tok_child_node", words[0].0, words[0].1, b"-3"));
            }
        }
        if sites.len() > token_budget {
            r.shuffle(&mut sites);
            sites.truncate(token_budget);
        }
        out.extend(sites);
    }

    // --- bit / byte flips
    let header_end = m.data_start;
    let hdr_step = if b.heavy && !thorough { 3 } else { 1 };
    let mut i = 0;
    while i < header_end {
        for bit in 0..8u8 {
            if b.heavy && !thorough && !matches!(bit, 0 | 4 | 5 | 7) {
                continue;
            }
            out.push(sp("bitflip_header", i, i + 1, &[bytes[i] ^ (1 << bit)]));
        }
        i += hdr_step;
    }
    for tr in &m.text_ranges {
        let n = tr.end - tr.start;
        let count = if b.heavy { if thorough { 300 } else { 40 } } else { n };
        for k in 0..count {
            let i = if count == n { tr.start + k } else { tr.start + r.below(n) };
            let bit = *r.pick(&[0u8, 1, 2, 5, 6, 7]);
            out.push(sp("bitflip_text", i, i + 1, &[bytes[i] ^ (1 << bit)]));
            if !b.heavy || k % 4 == 0 {
                out.push(sp("byteflip_text", i, i + 1, &[*r.pick(&[0u8, b'\n', b' ', b'"', b'{', b'}', b'-', 0xff, b'9'])]));
            }
        }
    }
    for br in &m.bin_ranges {
        // the per-tree pdf counts at the head of the block: every bit of the first 8 bytes, then samples
        let n = br.end - br.start;
        for i in br.start..(br.start + 8).min(br.end) {
            for bit in 0..8u8 {
                out.push(sp("bitflip_pdfcount", i, i + 1, &[bytes[i] ^ (1 << bit)]));
            }
        }
        let count = if b.heavy { 6 } else { 24 };
        for _ in 0..count {
            let i = br.start + r.below(n);
            out.push(sp("bitflip_pdf", i, i + 1, &[bytes[i] ^ (1 << r.below(8))]));
        }
        for rep in [[0xffu8; 4], [0, 0, 0, 0x80], [0x00, 0x00, 0x80, 0x7f], [0x00, 0x00, 0xc0, 0x7f]] {
            out.push(sp("pdfcount_set", br.start, (br.start + 4).min(br.end), &rep));
            let i = br.start + (r.below(n) & !3);
            out.push(sp("pdf_value_set", i, (i + 4).min(br.end), &rep));
        }
    }

    // --- lost / torn sector writes
    for sector in [512usize, 4096] {
        let n = len.div_ceil(sector);
        let idxs: Vec<usize> = if n <= 64 || (sector == 4096 && thorough) { (0..n).collect() } else { (0..if thorough { 96 } else { 24 }).map(|_| r.below(n)).collect() };
        for k in idxs {
            let a = k * sector;
            let e = ((k + 1) * sector).min(len);
            out.push(sp("zero_sector", a, e, &vec![0u8; e - a]));
        }
        for t in 0..if thorough { 24 } else { 6 } {
            out.push(Fault::Torn { sector, seed: mix(&[seed, sector as u64, t]), keep_milli: *r.pick(&[900, 700, 500, 200]), fill: (t % 2) as u8 });
        }
        // prefix persisted, tail lost
        for t in 0..if thorough { 12 } else { 4 } {
            let k = 1 + r.below(n.max(2) - 1);
            let a = (k * sector).min(len);
            out.push(sp("torn_tail_zero", a, len, &vec![0u8; len - a]));
            let _ = t;
        }
    }

    // --- failing system call
    for k in 0..3u8 {
        out.push(Fault::Io { kind: k });
    }
    out
}

/// A seeded second fault placed on `bytes` (already faulted once), biased to the neighbourhood of `near`.
pub fn seeded_fault(r: &mut Rng, bytes: &[u8], map: Option<&SectionMap>, near: usize) -> Fault {
    let len = bytes.len().max(1);
    let pos_near = |r: &mut Rng| -> usize {
        if r.chance(0.5) {
            let span = 64usize;
            (near.saturating_sub(span) + r.below(2 * span)).min(len - 1)
        } else {
            r.below(len)
        }
    };
    if let Some(m) = map {
        match r.below(10) {
            0 | 1 if !m.numbers.is_empty() => {
                let n = &m.numbers[r.below(m.numbers.len())];
                let rep = *r.pick(&["0", "1", "2", "7", "4000000000", "18446744073709551615", "18446744073709551616", "-5", "abc", ""]);
                return sp("hdr_number", n.start, n.end, rep.as_bytes());
            }
            2 | 3 if !m.ranges.is_empty() => {
                let rg = &m.ranges[r.below(m.ranges.len())];
                let datalen = bytes.len().saturating_sub(m.data_start);
                let (ra, rb) = (rg.a.min(1 << 40), rg.b.min(1 << 40));
                let rep = match r.below(6) {
                    0 => format!("{}-{}", rb, ra),
                    1 => format!("{}-{}", ra, datalen + r.below(5000)),
                    2 => format!("{}-{}", r.below(datalen.max(1)), r.below(datalen.max(1))),
                    3 => format!("{}-{}", ra, rb.saturating_sub(r.below(8))),
                    4 => format!("{}-{}", ra + r.below(8), rb),
                    _ => format!("{}-{}", ra, rb + r.below(8)),
                };
                return sp("range_swap", rg.start, rg.end, rep.as_bytes());
            }
            4 if !m.lines.is_empty() => {
                let l = &m.lines[r.below(m.lines.len())];
                return if r.chance(0.5) {
                    sp("line_del", l.start, l.end, &[])
                } else {
                    let mut dup = bytes[l.start.min(bytes.len())..l.end.min(bytes.len()).max(l.start.min(bytes.len()))].to_vec();
                    let d2 = dup.clone();
                    dup.extend_from_slice(&d2);
                    sp("line_dup", l.start, l.end, &dup)
                };
            }
            _ => {}
        }
    }
    match r.below(6) {
        0 => {
            let c = pos_near(r);
            sp("truncate", c, bytes.len(), &[])
        }
        1 | 2 => {
            let i = pos_near(r);
            sp("bitflip", i, i + 1, &[bytes.get(i).copied().unwrap_or(0) ^ (1 << r.below(8))])
        }
        3 => {
            let i = pos_near(r);
            sp("byteflip", i, i + 1, &[*r.pick(&[0u8, b'\n', b' ', b'"', b'{', b'}', b'-', 0xff, b'9', b'[', b']', b':'])])
        }
        4 => {
            let i = pos_near(r);
            let n = r.range(1, 16);
            sp("delete_bytes", i, (i + n).min(bytes.len()), &[])
        }
        _ => {
            let sector = *r.pick(&[512usize, 4096]);
            let k = r.below(len.div_ceil(sector));
            let a = k * sector;
            let e = ((k + 1) * sector).min(bytes.len());
            sp("zero_sector", a, e, &vec![0u8; e.saturating_sub(a)])
        }
    }
}

pub struct CaseSpace {
    pub bases: Vec<Base>,
    pub singles: Vec<(usize, Fault)>, // (base, fault)
    pub doubles: u64,
    pub seed: u64,
    pub hdr_twice: bool,
}

impl CaseSpace {
    pub fn new(bases: Vec<Base>, seed: u64, thorough: bool, doubles: u64) -> CaseSpace {
        let mut singles = Vec::new();
        for (bi, b) in bases.iter().enumerate() {
            for f in enumerate_singles(b, seed, thorough) {
                singles.push((bi, f));
            }
        }
        CaseSpace { bases, singles, doubles, seed, hdr_twice: true }
    }
    pub fn len(&self) -> u64 {
        // singles are run under two hash seeds
        2 * self.singles.len() as u64 + self.doubles
    }
    pub fn case(&self, idx: u64) -> Case {
        let ns = self.singles.len() as u64;
        if idx < 2 * ns {
            let (b, f) = &self.singles[(idx % ns) as usize];
            // first pass: the file alone; second pass (other header-hash seed): generated bases are loaded
            // together with their valid base file, in either order (the bundled voice would cost 10 ms extra)
            let multi = if idx / ns == 1 && !self.bases[*b].heavy { 1 + (idx % 2) as u8 } else { 0 };
            return Case { base: *b, faults: vec![f.clone()], hash_seed: mix(&[self.seed, 0x4a5, idx / ns]), after_good: false, multi };
        }
        let k = idx - 2 * ns;
        let mut r = Rng::new(mix(&[self.seed, 0xd0b1e, k]));
        // doubles: mostly on generated bases (cheap), sometimes on the bundled voice
        let light: Vec<usize> = (0..self.bases.len()).filter(|i| !self.bases[*i].heavy).collect();
        let heavy: Vec<usize> = (0..self.bases.len()).filter(|i| self.bases[*i].heavy).collect();
        let bi = if !heavy.is_empty() && r.chance(0.03) { heavy[r.below(heavy.len())] } else { light[r.below(light.len())] };
        let base = &self.bases[bi];
        // first fault: a random structured single of this base, or a seeded one
        let of_base: Vec<&(usize, Fault)> = Vec::new();
        let _ = of_base;
        let f1 = if r.chance(0.7) {
            // pick a single of this base by rejection
            let mut pick = None;
            for _ in 0..64 {
                let c = &self.singles[r.below(self.singles.len())];
                if c.0 == bi && !matches!(c.1, Fault::Io { .. }) {
                    pick = Some(c.1.clone());
                    break;
                }
            }
            pick.unwrap_or_else(|| seeded_fault(&mut r, &base.bytes, Some(&base.map), 0))
        } else {
            seeded_fault(&mut r, &base.bytes, Some(&base.map), base.map.data_start)
        };
        let other = &self.bases[(bi + 1) % self.bases.len()].bytes;
        let b1 = apply(&base.bytes, other, &f1);
        let near = match &f1 {
            Fault::Splice { start, .. } => *start,
            _ => 0,
        };
        let map1 = SectionMap::parse(&b1);
        let f2 = seeded_fault(&mut r, &b1, map1.as_ref().or(Some(&base.map)), near);
        let mut faults = vec![f1, f2];
        if r.chance(0.1) {
            let b2 = apply(&b1, other, &faults[1]);
            let map2 = SectionMap::parse(&b2);
            faults.push(seeded_fault(&mut r, &b2, map2.as_ref(), near));
        }
        let hash_seed = r.next_u64();
        let multi = if !self.bases[bi].heavy && hash_seed % 8 == 0 { 1 + ((hash_seed >> 3) % 2) as u8 } else { 0 };
        Case { base: bi, faults, hash_seed, after_good: false, multi }
    }
    pub fn bytes_of(&self, c: &Case) -> Vec<u8> {
        let other = &self.bases[(c.base + 1) % self.bases.len()].bytes;
        let mut cur = self.bases[c.base].bytes.clone();
        for f in &c.faults {
            cur = apply(&cur, other, f);
        }
        cur
    }
}

#[derive(Clone, Debug, PartialEq)]
pub enum Verdict {
    Ok,
    Err(String),
    Panic(String),
}

/// Execute one case in-process: write the file to the simulated disk, call the real loader.
pub fn exec_case(path: &std::path::Path, dirpath: &std::path::Path, bytes: &[u8], c: &Case, budget_extra: usize, good: Option<&[u8]>) -> (Verdict, usize) {
    if let (true, Some(g)) = (c.after_good, good) {
        // first the valid file at the same path (not judged), then the faulted one over it
        let _ = std::fs::write(path, g);
        jbonsai::verif::set_hash_seed(c.hash_seed);
        let _ = guarded(|| jbonsai::Engine::load(&[path]).map(|e| e.voices.len()).map_err(|e| error_kind(&e)));
    }
    let mut use_path = path.to_path_buf();
    let io = c.faults.iter().find_map(|f| if let Fault::Io { kind } = f { Some(*kind) } else { None });
    match io {
        Some(0) => {
            let _ = std::fs::remove_file(path);
        }
        Some(1) => use_path = dirpath.to_path_buf(),
        Some(_) => {
            let _ = std::fs::write(path, b"");
        }
        None => {
            let _ = std::fs::write(path, bytes);
        }
    }
    let mut paths: Vec<std::path::PathBuf> = vec![use_path.clone()];
    if let (true, Some(g)) = (c.multi != 0, good) {
        let gp = path.with_extension("valid.htsvoice");
        let _ = std::fs::write(&gp, g);
        if c.multi == 1 {
            paths.insert(0, gp);
        } else {
            paths.push(gp);
        }
    }
    jbonsai::verif::set_hash_seed(c.hash_seed);
    crate::alloc::arm(budget_extra);
    let r = guarded(|| jbonsai::Engine::load(&paths).map(|e| e.voices.len()).map_err(|e| error_kind(&e)));
    let peak = crate::alloc::disarm();
    let v = match r {
        Ok(Ok(_)) => Verdict::Ok,
        Ok(Err(k)) => Verdict::Err(k),
        Err(p) => Verdict::Panic(p.class()),
    };
    (v, peak)
}

fn error_kind(e: &jbonsai::EngineError) -> String {
    let s = format!("{:?}", e);
    // keep the variant path only: "ModelError(ParserError(NomError(...)))" -> "ModelError.ParserError.NomError"
    let mut out = String::new();
    let mut cur = String::new();
    for ch in s.chars() {
        if ch.is_alphanumeric() || ch == '_' {
            cur.push(ch);
        } else if ch == '(' || ch == '{' {
            if !cur.is_empty() && cur.chars().next().unwrap().is_uppercase() {
                if !out.is_empty() {
                    out.push('.');
                }
                out.push_str(&cur);
            }
            cur.clear();
            if out.matches('.').count() >= 3 {
                break;
            }
        } else {
            if out.is_empty() && !cur.is_empty() {
                out.push_str(&cur);
            }
            if ch != ' ' {
                break;
            }
            cur.clear();
        }
    }
    if out.is_empty() {
        out = cur;
    }
    out
}

pub fn kinds_table(m: &BTreeMap<String, BTreeMap<String, u64>>) -> crate::json::J {
    use crate::json::J;
    J::Obj(m.iter().map(|(k, v)| (k.clone(), J::from_counts(v))).collect())
}
