//! Writer for small synthetic `.htsvoice` files, and a harness-side section map of any voice file
//! (used to place faults and to extract the bundled voice's real question definitions).

use crate::rng::Rng;
use std::fmt::Write as _;

pub const BUNDLED: &str =
    "/repo/models/hts_voice_nitech_jp_atr503_m001-1.05/nitech_jp_atr503_m001.htsvoice";

/// Metadata of a generated voice. Voices with equal `Meta` are combinable in one `VoiceSet`.
#[derive(Clone, Debug, PartialEq, Eq, PartialOrd, Ord, Hash)]
pub struct Meta {
    pub nstate: usize,   // 1..=7
    pub nstreams: usize, // 2 | 3 (4..=6 only for C19/C20 histories: extra plain streams)
    pub mcp_len: usize,  // vector length of MCP, 2..=12
    pub lpf_len: usize,  // odd, 1..=7
    pub win: usize,      // 0 static, 1 +delta, 2 +delta-delta, 3 width-5 windows
    pub gv_mcp: bool,
    pub gv_lf0: bool,
    pub stage: usize, // 0 => MLSA, >=1 => LSP (GAMMA option)
    pub ln_gain: bool,
    pub alpha_milli: usize,
    pub rate: usize,
    pub fperiod: usize,
}

#[derive(Clone, Debug, PartialEq, Eq, PartialOrd, Ord, Hash)]
pub struct VoiceSpec {
    pub meta: Meta,
    pub body: u64,
}

impl Meta {
    pub fn random(r: &mut Rng) -> Meta {
        let stage = if r.chance(0.12) { r.range(1, 3) } else { 0 };
        Meta {
            nstate: *r.pick(&[1, 2, 2, 3, 3, 4, 5, 5, 6, 7]),
            nstreams: if r.chance(0.08) { 2 } else { 3 },
            mcp_len: r.range(2, 12),
            lpf_len: *r.pick(&[1, 3, 3, 5, 7]),
            win: *r.pick(&[0, 1, 2, 2, 2, 3]),
            gv_mcp: r.chance(0.4),
            gv_lf0: r.chance(0.4),
            stage,
            ln_gain: stage > 0 && r.chance(0.5),
            alpha_milli: *r.pick(&[0, 100, 300, 420, 550]),
            rate: *r.pick(&[8000, 8000, 16000, 22050, 48000]),
            fperiod: *r.pick(&[4, 5, 8, 8, 10, 16]),
        }
    }
    /// The configuration every property needs at least: 3 streams, MLSA.
    pub fn random_plain(r: &mut Rng) -> Meta {
        let mut m = Meta::random(r);
        m.nstreams = 3;
        m.stage = 0;
        m.ln_gain = false;
        m
    }
    pub fn to_text(&self) -> String {
        format!(
            "ns={},st={},mcp={},lpf={},win={},gvm={},gvl={},stage={},lg={},alpha={},rate={},fp={}",
            self.nstate,
            self.nstreams,
            self.mcp_len,
            self.lpf_len,
            self.win,
            self.gv_mcp as u8,
            self.gv_lf0 as u8,
            self.stage,
            self.ln_gain as u8,
            self.alpha_milli,
            self.rate,
            self.fperiod
        )
    }
    pub fn from_text(s: &str) -> Option<Meta> {
        let mut m = Meta {
            nstate: 0,
            nstreams: 0,
            mcp_len: 0,
            lpf_len: 0,
            win: 0,
            gv_mcp: false,
            gv_lf0: false,
            stage: 0,
            ln_gain: false,
            alpha_milli: 0,
            rate: 0,
            fperiod: 0,
        };
        for kv in s.split(',') {
            let (k, v) = kv.split_once('=')?;
            let v: usize = v.parse().ok()?;
            match k {
                "ns" => m.nstate = v,
                "st" => m.nstreams = v,
                "mcp" => m.mcp_len = v,
                "lpf" => m.lpf_len = v,
                "win" => m.win = v,
                "gvm" => m.gv_mcp = v != 0,
                "gvl" => m.gv_lf0 = v != 0,
                "stage" => m.stage = v,
                "lg" => m.ln_gain = v != 0,
                "alpha" => m.alpha_milli = v,
                "rate" => m.rate = v,
                "fp" => m.fperiod = v,
                _ => return None,
            }
        }
        Some(m)
    }
}

impl VoiceSpec {
    pub fn to_text(&self) -> String {
        format!("{},body={}", self.meta.to_text(), self.body)
    }
    pub fn from_text(s: &str) -> Option<VoiceSpec> {
        let (m, b) = s.rsplit_once(",body=")?;
        Some(VoiceSpec { meta: Meta::from_text(m)?, body: b.parse().ok()? })
    }
}

const WIN_STATIC: &str = "1 1.0\n";
const WIN_D3: &str = "3 -0.5 0.0 0.5\n";
const WIN_DD3: &str = "3 1.0 -2.0 1.0\n";
const WIN_D5: &str = "5 -0.2 -0.1 0.0 0.1 0.2\n";
const WIN_DD5: &str = "5 0.285714 -0.142857 -0.285714 -0.142857 0.285714\n";

fn windows_for(win: usize) -> Vec<&'static str> {
    match win {
        0 => vec![WIN_STATIC],
        1 => vec![WIN_STATIC, WIN_D3],
        2 => vec![WIN_STATIC, WIN_D3, WIN_DD3],
        _ => vec![WIN_STATIC, WIN_D5, WIN_DD5],
    }
}

/// Real question definitions (`QS name { patterns }` lines) taken from the bundled voice.
pub struct QuestionPool {
    pub lines: Vec<(String, String)>, // (name, full "QS ..." line without newline)
}

impl QuestionPool {
    pub fn from_bundled() -> Result<QuestionPool, String> {
        let bytes = std::fs::read(BUNDLED).map_err(|e| format!("read {}: {}", BUNDLED, e))?;
        let map = SectionMap::parse(&bytes).ok_or("bundled voice: cannot map sections")?;
        let mut seen = std::collections::BTreeSet::new();
        let mut lines = Vec::new();
        for r in map.text_ranges.iter().filter(|r| r.kind == "tree") {
            let text = String::from_utf8_lossy(&bytes[r.start..r.end]);
            for l in text.lines() {
                if let Some(rest) = l.strip_prefix("QS ") {
                    let name = rest.split_whitespace().next().unwrap_or("").to_string();
                    if !name.is_empty() && seen.insert(name.clone()) {
                        lines.push((name, l.trim_end().to_string()));
                    }
                }
            }
        }
        if lines.len() < 50 {
            return Err(format!("bundled voice: only {} questions found", lines.len()));
        }
        Ok(QuestionPool { lines })
    }
}

/// Nested binary tree: None = leaf, Some(no, yes) = internal.
enum TNode {
    Leaf,
    Inner(Box<TNode>, Box<TNode>),
}

fn random_tree(r: &mut Rng, nleaf: usize) -> TNode {
    // grow by splitting a random leaf
    fn split(t: &mut TNode, which: &mut usize) -> bool {
        match t {
            TNode::Leaf => {
                if *which == 0 {
                    *t = TNode::Inner(Box::new(TNode::Leaf), Box::new(TNode::Leaf));
                    true
                } else {
                    *which -= 1;
                    false
                }
            }
            TNode::Inner(a, b) => split(a, which) || split(b, which),
        }
    }
    let mut t = TNode::Inner(Box::new(TNode::Leaf), Box::new(TNode::Leaf));
    let mut leaves = 2;
    while leaves < nleaf {
        let mut w = r.below(leaves);
        split(&mut t, &mut w);
        leaves += 1;
    }
    t
}

fn tree_text(r: &mut Rng, prefix: &str, state: usize, nleaf: usize, quoted: bool, qnames: &[String], out: &mut String) {
    let q = |n: usize| {
        if quoted {
            format!("\"{}_s{}_{}\"", prefix, state, n)
        } else {
            format!("{}_s{}_{}", prefix, state, n)
        }
    };
    if nleaf == 1 {
        let _ = write!(out, "{{*}}[{}]\n   {}\n", state, q(1));
        return;
    }
    let t = random_tree(r, nleaf);
    // number internal nodes in pre-order: 0, -1, -2, ...
    fn number<'a>(t: &'a TNode, order: &mut Vec<&'a TNode>) {
        if let TNode::Inner(a, b) = t {
            order.push(t);
            number(a, order);
            number(b, order);
        }
    }
    let mut order = Vec::new();
    number(&t, &mut order);
    let id_of = |n: &TNode| -> i64 {
        let p = n as *const TNode;
        -(order.iter().position(|x| std::ptr::eq(*x as *const TNode, p)).unwrap() as i64)
    };
    let mut leaf_no = 0usize;
    let _ = write!(out, "{{*}}[{}]\n{{\n", state);
    let n_inner = order.len();
    for (k, n) in order.iter().enumerate() {
        if let TNode::Inner(a, b) = n {
            let mut parts = Vec::new();
            for c in [a, b] {
                match **c {
                    TNode::Leaf => {
                        leaf_no += 1;
                        parts.push(q(leaf_no));
                    }
                    TNode::Inner(..) => parts.push(format!("{}", id_of(c))),
                }
            }
            let qn = &qnames[r.below(qnames.len())];
            let _ = write!(out, " {} {:<30} {:>14} {:>14} ", id_of(n), qn, parts[0], parts[1]);
            if k + 1 < n_inner {
                out.push('\n');
            }
        }
    }
    out.push_str("\n}\n");
    debug_assert_eq!(leaf_no, nleaf);
}

struct ModelBlob {
    tree: Vec<u8>,
    pdf: Vec<u8>,
}

#[allow(clippy::too_many_arguments)]
fn model(
    r: &mut Rng,
    pool: &QuestionPool,
    prefix: &str,
    states: &[usize],
    half_len: usize, // number of means (= number of variances)
    msd: bool,
    mean: &dyn Fn(&mut Rng, usize) -> f64,
    vari: (f64, f64),
) -> ModelBlob {
    // question subset for this model
    let nq = r.range(3, 10);
    let mut qnames = Vec::new();
    let mut qtext = String::new();
    for _ in 0..nq {
        let (name, line) = &pool.lines[r.below(pool.lines.len())];
        if !qnames.contains(name) {
            qnames.push(name.clone());
            qtext.push_str(line);
            qtext.push('\n');
        }
    }
    qtext.push('\n');
    let quoted = r.chance(0.7);
    let mut trees = String::new();
    let mut counts: Vec<u32> = Vec::new();
    let mut pdfs: Vec<u8> = Vec::new();
    for (si, s) in states.iter().enumerate() {
        let nleaf = *r.pick(&[1, 1, 2, 3, 3, 5, 8]);
        tree_text(r, prefix, *s, nleaf, quoted, &qnames, &mut trees);
        if si + 1 < states.len() {
            trees.push('\n');
        }
        counts.push(nleaf as u32);
        for _ in 0..nleaf {
            for i in 0..half_len {
                pdfs.extend_from_slice(&(mean(r, i) as f32).to_le_bytes());
            }
            for _ in 0..half_len {
                pdfs.extend_from_slice(&(r.uniform(vari.0, vari.1) as f32).to_le_bytes());
            }
            if msd {
                let w = *r.pick(&[0.95f64, 0.9, 0.8, 0.6, 0.4, 0.1]);
                pdfs.extend_from_slice(&(w as f32).to_le_bytes());
            }
        }
    }
    let mut pdf = Vec::new();
    for c in counts {
        pdf.extend_from_slice(&c.to_le_bytes());
    }
    pdf.extend_from_slice(&pdfs);
    let mut tree = qtext.into_bytes();
    tree.extend_from_slice(trees.as_bytes());
    ModelBlob { tree, pdf }
}

/// `VoiceSpec::body` flag bits: the voice is the one of `body & BODY_MASK`, except that one leaf of its LF0 /
/// LPF trees names a PDF that does not exist. Such a voice loads; utterances whose labels reach that leaf
/// panic in the middle of `Engine::generator` (after the spectrum stream is done), all others synthesize.
pub const DEFECT_LF0: u64 = 1 << 40;
pub const DEFECT_LPF: u64 = 1 << 41;
pub const BODY_MASK: u64 = (1 << 40) - 1;
/// the header's string fields carry (valid) non-ASCII text: a Japanese COMMENT of well over 40 bytes
pub const NONASCII_TEXT: u64 = 1 << 42;

/// Point the highest-numbered leaf (>= 2) of a tree section at a PDF index that does not exist.
fn break_one_leaf(tree: &mut Vec<u8>, prefix: &str) {
    let text = String::from_utf8_lossy(tree).to_string();
    let pat = format!("{}_s", prefix);
    let mut best: Option<(usize, usize, usize)> = None; // (start of digits, len of digits, n)
    let mut from = 0;
    while let Some(p) = text[from..].find(&pat) {
        let at = from + p + pat.len();
        // state digits, '_', leaf digits
        let rest = &text[at..];
        let sd = rest.chars().take_while(|c| c.is_ascii_digit()).count();
        if sd > 0 && rest[sd..].starts_with('_') {
            let ld = rest[sd + 1..].chars().take_while(|c| c.is_ascii_digit()).count();
            if ld > 0 {
                let n: usize = rest[sd + 1..sd + 1 + ld].parse().unwrap_or(0);
                if n >= 2 && best.map(|b| n > b.2).unwrap_or(true) {
                    best = Some((at + sd + 1, ld, n));
                }
            }
        }
        from = at;
    }
    if let Some((start, len, n)) = best {
        let mut t = text[..start].to_string();
        t.push_str(&(n + 50).to_string());
        t.push_str(&text[start + len..]);
        *tree = t.into_bytes();
    }
}

/// Emit a complete voice file for `spec`.
pub fn build(spec: &VoiceSpec, pool: &QuestionPool) -> Vec<u8> {
    let m = &spec.meta;
    let mut r = Rng::new(crate::rng::mix(&[0x766f_6963_65, spec.body & BODY_MASK]));
    let mut data: Vec<u8> = Vec::new();
    let mut pos: Vec<(String, usize, usize)> = Vec::new();
    let mut put = |data: &mut Vec<u8>, key: String, blob: &[u8]| {
        let a = data.len();
        data.extend_from_slice(blob);
        pos.push((key, a, data.len() - 1));
    };
    // streams beyond the third are extra plain (non-MSD, no GV) streams: the engine never reads them for
    // synthesis, but every per-stream setting and weight exists for them
    let names: Vec<&str> = ["MCP", "LF0", "LPF", "BAP", "AUX", "EXT"][..m.nstreams.min(6)].to_vec();
    let vl = |n: &str| match n {
        "MCP" => m.mcp_len,
        "LF0" => 1,
        _ => m.lpf_len,
    };
    let wins = |n: &str| if n == "LPF" { windows_for(0) } else { windows_for(m.win) };
    let is_msd = |n: &str| n == "LF0";
    let use_gv = |n: &str| (n == "MCP" && m.gv_mcp) || (n == "LF0" && m.gv_lf0);

    // duration model: one tree for "state 2", pdf of nstate means + nstate variances
    let dur = model(&mut r, pool, "dur", &[2], m.nstate, false, &|r, _| r.uniform(1.2, 3.6), (0.3, 2.0));
    put(&mut data, "DURATION_PDF".into(), &dur.pdf);
    put(&mut data, "DURATION_TREE".into(), &dur.tree);

    let mut swin: Vec<(String, Vec<(usize, usize)>)> = Vec::new();
    for n in &names {
        let mut v = Vec::new();
        for w in wins(n) {
            let a = data.len();
            data.extend_from_slice(w.as_bytes());
            v.push((a, data.len() - 1));
        }
        swin.push((n.to_string(), v));
    }
    let states: Vec<usize> = (2..2 + m.nstate).collect();
    for n in &names {
        let len = vl(n);
        let nwin = wins(n).len();
        let stage = m.stage;
        let ln_gain = m.ln_gain;
        let lpf_len = m.lpf_len;
        let mean: Box<dyn Fn(&mut Rng, usize) -> f64> = match *n {
            "MCP" => Box::new(move |r: &mut Rng, i: usize| {
                if i >= len {
                    return r.uniform(-0.01, 0.01);
                }
                if stage == 0 {
                    if i == 0 {
                        r.uniform(0.2, 0.9)
                    } else {
                        r.uniform(-0.25, 0.25) / (1.0 + i as f64 * 0.3)
                    }
                } else if i == 0 {
                    if ln_gain {
                        r.uniform(-0.5, 0.5)
                    } else {
                        r.uniform(0.6, 1.6)
                    }
                } else {
                    // increasing line spectral frequencies in (0, pi)
                    let step = std::f64::consts::PI / (len as f64);
                    step * (i as f64 - 0.5) + r.uniform(-0.2, 0.2) * step
                }
            }),
            "LF0" => Box::new(move |r: &mut Rng, i: usize| if i == 0 { if r.chance(0.15) { r.uniform(3.2, 4.0) } else { r.uniform(4.2, 5.6) } } else { r.uniform(-0.02, 0.02) }),
            _ => Box::new(move |r: &mut Rng, i: usize| if i == lpf_len / 2 { r.uniform(0.8, 1.0) } else { r.uniform(-0.05, 0.05) }),
        };
        let mut blob = model(&mut r, pool, &n.to_lowercase(), &states, len * nwin, is_msd(n), &*mean, (0.02, 0.6));
        if (*n == "LF0" && spec.body & DEFECT_LF0 != 0) || (*n == "LPF" && spec.body & DEFECT_LPF != 0) {
            break_one_leaf(&mut blob.tree, &n.to_lowercase());
        }
        put(&mut data, format!("STREAM_PDF[{}]", n), &blob.pdf);
        put(&mut data, format!("STREAM_TREE[{}]", n), &blob.tree);
    }
    for n in &names {
        if use_gv(n) {
            let len = vl(n);
            let blob = model(&mut r, pool, &format!("gv_{}", n.to_lowercase()), &[2], len, false, &|r, _| r.uniform(0.02, 0.2), (0.001, 0.01));
            put(&mut data, format!("GV_PDF[{}]", n), &blob.pdf);
            put(&mut data, format!("GV_TREE[{}]", n), &blob.tree);
        }
    }

    let mut h = String::new();
    let _ = write!(
        h,
        "[GLOBAL]\nHTS_VOICE_VERSION:1.0\nSAMPLING_FREQUENCY:{}\nFRAME_PERIOD:{}\nNUM_STATES:{}\nNUM_STREAMS:{}\nSTREAM_TYPE:{}\nFULLCONTEXT_FORMAT:HTS_TTS_JPN\nFULLCONTEXT_VERSION:1.0\nGV_OFF_CONTEXT:\"*-sil+*\",\"*-pau+*\"\nCOMMENT:{}\n",
        m.rate,
        m.fperiod,
        m.nstate,
        names.len(),
        names.join(","),
        if spec.body & NONASCII_TEXT != 0 { "日本語の音声モデルです。検証のために生成された声で、実在の話者ではありません。" } else { "" }
    );
    h.push_str("[STREAM]\n");
    for n in &names {
        let _ = writeln!(h, "VECTOR_LENGTH[{}]:{}", n, vl(n));
    }
    for n in &names {
        let _ = writeln!(h, "IS_MSD[{}]:{}", n, is_msd(n) as u8);
    }
    for n in &names {
        let _ = writeln!(h, "NUM_WINDOWS[{}]:{}", n, wins(n).len());
    }
    for n in &names {
        let _ = writeln!(h, "USE_GV[{}]:{}", n, use_gv(n) as u8);
    }
    let mut opts = vec![format!("ALPHA={}", m.alpha_milli as f64 / 1000.0)];
    if m.mcp_len % 3 == 0 {
        // a second, distinct ALPHA entry first (the last one wins when the engine reads them in order):
        // gives option lists of length >= 2 whose order matters
        opts.insert(0, "ALPHA=0.1".to_string());
    }
    if m.stage > 0 {
        opts.insert(0, format!("GAMMA={}", m.stage));
        opts.push(format!("LN_GAIN={}", m.ln_gain as u8));
    }
    let _ = writeln!(h, "OPTION[MCP]:{}", opts.join(","));
    for n in &names[1..] {
        let _ = writeln!(h, "OPTION[{}]:", n);
    }
    h.push_str("[POSITION]\n");
    let find = |k: &str| pos.iter().find(|p| p.0 == k).map(|p| (p.1, p.2));
    let (a, b) = find("DURATION_PDF").unwrap();
    let _ = writeln!(h, "DURATION_PDF:{}-{}", a, b);
    let (a, b) = find("DURATION_TREE").unwrap();
    let _ = writeln!(h, "DURATION_TREE:{}-{}", a, b);
    for (n, v) in &swin {
        let s: Vec<String> = v.iter().map(|(a, b)| format!("{}-{}", a, b)).collect();
        let _ = writeln!(h, "STREAM_WIN[{}]:{}", n, s.join(","));
    }
    for k in ["STREAM_PDF", "STREAM_TREE", "GV_PDF", "GV_TREE"] {
        for n in &names {
            let kk = format!("{}[{}]", k, n);
            if let Some((a, b)) = find(&kk) {
                let _ = writeln!(h, "{}:{}-{}", kk, a, b);
            }
        }
    }
    h.push_str("[DATA]\n");
    let mut out = h.into_bytes();
    out.extend_from_slice(&data);
    out
}

// ---------------------------------------------------------------------------------------------
// Section map

#[derive(Clone, Debug)]
pub struct HeaderLine {
    pub section: &'static str, // GLOBAL | STREAM | POSITION
    pub start: usize,          // offset of first byte of the line
    pub end: usize,            // offset one past the '\n'
    pub key: String,
    pub value_start: usize,
}

#[derive(Clone, Debug)]
pub struct NumSpan {
    pub start: usize,
    pub end: usize,
    pub value: u64,
    pub key: String,
}

#[derive(Clone, Debug)]
pub struct RangeSpan {
    pub start: usize,
    pub end: usize,
    pub a: usize,
    pub b: usize,
    pub key: String,
}

#[derive(Clone, Debug)]
pub struct DataRange {
    pub kind: &'static str, // tree | pdf | win
    pub key: String,
    pub start: usize, // absolute offsets into the file, end exclusive
    pub end: usize,
}

#[derive(Clone, Debug, Default)]
pub struct SectionMap {
    pub section_starts: Vec<(String, usize)>, // "[GLOBAL]" etc. offsets of the '['
    pub lines: Vec<HeaderLine>,
    pub numbers: Vec<NumSpan>,
    pub ranges: Vec<RangeSpan>,
    pub data_start: usize,
    pub text_ranges: Vec<DataRange>,
    pub bin_ranges: Vec<DataRange>,
    pub len: usize,
}

impl SectionMap {
    pub fn parse(bytes: &[u8]) -> Option<SectionMap> {
        let mut m = SectionMap { len: bytes.len(), ..Default::default() };
        let find = |needle: &[u8], from: usize| -> Option<usize> {
            bytes[from..].windows(needle.len()).position(|w| w == needle).map(|p| p + from)
        };
        let g = find(b"[GLOBAL]\n", 0)?;
        let s = find(b"\n[STREAM]\n", g)? + 1;
        let p = find(b"\n[POSITION]\n", s)? + 1;
        let d = find(b"\n[DATA]\n", p)? + 1;
        m.section_starts = vec![("[GLOBAL]".into(), g), ("[STREAM]".into(), s), ("[POSITION]".into(), p), ("[DATA]".into(), d)];
        m.data_start = d + b"[DATA]\n".len();
        let secs: [(&'static str, usize, usize); 3] = [("GLOBAL", g + 9, s), ("STREAM", s + 9, p), ("POSITION", p + 11, d)];
        for (name, a, b) in secs {
            let mut i = a;
            while i < b {
                let e = bytes[i..b].iter().position(|c| *c == b'\n').map(|x| i + x + 1).unwrap_or(b);
                let line = &bytes[i..e];
                if let Some(c) = line.iter().position(|c| *c == b':') {
                    let key = String::from_utf8_lossy(&line[..c]).to_string();
                    let vs = i + c + 1;
                    m.lines.push(HeaderLine { section: name, start: i, end: e, key: key.clone(), value_start: vs });
                    // numbers & ranges in the value
                    let numeric_key = !matches!(
                        key.as_str(),
                        "HTS_VOICE_VERSION" | "FULLCONTEXT_FORMAT" | "FULLCONTEXT_VERSION" | "GV_OFF_CONTEXT" | "COMMENT" | "STREAM_TYPE"
                    ) && !key.starts_with("OPTION");
                    if numeric_key {
                        let mut j = vs;
                        let mut spans: Vec<(usize, usize)> = Vec::new();
                        while j < e {
                            if bytes[j].is_ascii_digit() {
                                let st = j;
                                while j < e && bytes[j].is_ascii_digit() {
                                    j += 1;
                                }
                                spans.push((st, j));
                            } else {
                                j += 1;
                            }
                        }
                        for (st, en) in &spans {
                            let v: u64 = std::str::from_utf8(&bytes[*st..*en]).ok().and_then(|x| x.parse().ok()).unwrap_or(u64::MAX);
                            m.numbers.push(NumSpan { start: *st, end: *en, value: v, key: key.clone() });
                        }
                        if name == "POSITION" {
                            let mut k = 0;
                            while k + 1 < spans.len() {
                                let (s0, e0) = spans[k];
                                let (s1, e1) = spans[k + 1];
                                if e0 < bytes.len() && bytes[e0] == b'-' && s1 == e0 + 1 {
                                    let a = std::str::from_utf8(&bytes[s0..e0]).ok().and_then(|x| x.parse::<usize>().ok());
                                    let bb = std::str::from_utf8(&bytes[s1..e1]).ok().and_then(|x| x.parse::<usize>().ok());
                                    if let (Some(a), Some(bb)) = (a, bb) {
                                        m.ranges.push(RangeSpan { start: s0, end: e1, a, b: bb, key: key.clone() });
                                    }
                                    k += 2;
                                } else {
                                    k += 1;
                                }
                            }
                        }
                    }
                }
                i = e;
            }
        }
        for r in &m.ranges {
            let kind: &'static str = if r.key.contains("TREE") {
                "tree"
            } else if r.key.contains("PDF") {
                "pdf"
            } else {
                "win"
            };
            let st = m.data_start.saturating_add(r.a);
            let en = m.data_start.saturating_add(r.b).saturating_add(1).min(bytes.len());
            if st >= en {
                continue;
            }
            let dr = DataRange { kind, key: r.key.clone(), start: st, end: en };
            if kind == "pdf" {
                m.bin_ranges.push(dr);
            } else {
                m.text_ranges.push(dr);
            }
        }
        Some(m)
    }
}
