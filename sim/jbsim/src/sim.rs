//! World W1, layer L1: one logical-task simulator executing ops atomically against real jbonsai
//! objects, with a reference model next to every object and the oracles of C02/C03/C19/C20.

use std::collections::BTreeMap;
use std::rc::Rc;
use std::sync::Arc;

use jbonsai::model::{Voice, VoiceSet};
use jbonsai::speech::SpeechGenerator;
use jbonsai::{Condition, Engine};

use crate::env::{guarded, with_fuel, Env, PanicNote, FUEL_MSG};
use crate::ops::*;
use crate::rng::hash_f64s;

#[derive(Clone, Copy, Debug, PartialEq, Eq, PartialOrd, Ord)]
pub enum Prop {
    C02,
    C03,
    C19,
    C20,
}

impl Prop {
    pub fn id(&self) -> &'static str {
        match self {
            Prop::C02 => "C02",
            Prop::C03 => "C03",
            Prop::C19 => "C19",
            Prop::C20 => "C20",
        }
    }
    pub fn from_id(s: &str) -> Option<Prop> {
        match s {
            "C02" => Some(Prop::C02),
            "C03" => Some(Prop::C03),
            "C19" => Some(Prop::C19),
            "C20" => Some(Prop::C20),
            _ => None,
        }
    }
}

#[derive(Clone, Debug)]
pub struct Violation {
    pub oracle: &'static str,
    /// stable class of the violation (no indices / numbers): used to decide "same violation" while shrinking
    pub class: String,
    pub detail: String,
    pub op_index: usize,
}

impl Violation {
    pub fn signature(&self) -> String {
        format!("{}|{}", self.oracle, self.class)
    }
}

/// Harness-side failure (not a verdict): bad replay file, fault-free voice refused, ...
#[derive(Debug)]
pub struct HarnessError(pub String);

pub enum Stop {
    Violation(Violation),
    Harness(HarnessError),
}

// ---------------------------------------------------------------------------------------------
// reference model of Condition

#[derive(Clone, Debug, PartialEq)]
pub struct CondModel {
    pub sf: usize,
    pub fp: usize,
    /// last argument of set_volume (None = never set); not judged, only used to split C03 keys
    pub vol_arg: Option<u64>,
    /// bits of get_volume() observed right after the last set_volume (isolation check)
    pub vol_seen: u64,
    pub msd: Vec<f64>,
    pub gvw: Vec<f64>,
    pub align: bool,
    pub speed: f64,
    pub alpha: f64,
    pub beta: f64,
    pub half: f64,
    pub nvoices: usize,
    pub wdur: Vec<f64>,
    pub wpar: Vec<Vec<f64>>,
    pub wgv: Vec<Vec<f64>>,
}

fn same(a: f64, b: f64) -> bool {
    // bitwise, identifying +0.0 and -0.0 (f64::max(-0.0, 0.0) may return either) and all NaNs
    a.to_bits() == b.to_bits() || (a == 0.0 && b == 0.0) || (a.is_nan() && b.is_nan())
}

impl CondModel {
    /// Model of a freshly loaded engine. Sampling rate, frame period and alpha come from the voice
    /// header (that they equal the header is C04's business) and are read off the engine here.
    pub fn fresh(eng: &Engine, nvoices: usize) -> CondModel {
        let ns = eng.voices.global_metadata().num_streams;
        let avg = 1.0f64 / nvoices as f64;
        CondModel {
            sf: eng.condition.get_sampling_frequency(),
            fp: eng.condition.get_fperiod(),
            vol_arg: None,
            vol_seen: 0.0f64.to_bits(),
            msd: vec![0.5; ns],
            gvw: vec![1.0; ns],
            align: false,
            speed: 1.0,
            alpha: eng.condition.get_alpha(),
            beta: 0.0,
            half: 0.0,
            nvoices,
            wdur: vec![avg; nvoices],
            wpar: vec![vec![avg; nvoices]; ns],
            wgv: vec![vec![avg; nvoices]; ns],
        }
    }
    pub fn nstream(&self) -> usize {
        self.msd.len()
    }

    pub fn apply(&mut self, s: &Setter) {
        match *s {
            Setter::SamplingFrequency(i) => self.sf = i.max(1),
            Setter::Fperiod(i) => self.fp = i.max(1),
            Setter::Volume(f) => self.vol_arg = Some(f.to_bits()),
            Setter::Msd(i, f) => self.msd[i] = if f < 0.0 { 0.0 } else if f > 1.0 { 1.0 } else { f },
            Setter::GvWeight(i, f) => self.gvw[i] = if f < 0.0 { 0.0 } else { f },
            Setter::Align(b) => self.align = b,
            Setter::Speed(f) => self.speed = if f < 1.0e-6 { 1.0e-6 } else { f },
            Setter::Alpha(f) => self.alpha = if f < 0.0 { 0.0 } else if f > 1.0 { 1.0 } else { f },
            Setter::Beta(f) => self.beta = if f < 0.0 { 0.0 } else if f > 1.0 { 1.0 } else { f },
            Setter::HalfTone(f) => self.half = f,
        }
    }

    /// Compare every getter of `c` with the model. Returns the first mismatch (field name, text).
    pub fn compare(&self, c: &Condition, weights: bool) -> Option<(String, String)> {
        let mm = |name: &str, got: String, want: String| Some((name.to_string(), format!("{}: getter returned {}, model says {}", name, got, want)));
        if c.get_sampling_frequency() != self.sf {
            return mm("sampling_frequency", c.get_sampling_frequency().to_string(), self.sf.to_string());
        }
        if c.get_fperiod() != self.fp {
            return mm("fperiod", c.get_fperiod().to_string(), self.fp.to_string());
        }
        if c.get_volume().to_bits() != self.vol_seen && !(c.get_volume().is_nan() && f64::from_bits(self.vol_seen).is_nan()) {
            return mm("volume", format!("{:e}", c.get_volume()), format!("{:e} (value observed after the last set_volume)", f64::from_bits(self.vol_seen)));
        }
        for i in 0..self.nstream() {
            if !same(c.get_msd_threshold(i), self.msd[i]) {
                return mm("msd_threshold", format!("[{}]={:e}", i, c.get_msd_threshold(i)), format!("{:e}", self.msd[i]));
            }
            if !same(c.get_gv_weight(i), self.gvw[i]) {
                return mm("gv_weight", format!("[{}]={:e}", i, c.get_gv_weight(i)), format!("{:e}", self.gvw[i]));
            }
        }
        if c.get_phoneme_alignment_flag() != self.align {
            return mm("alignment", c.get_phoneme_alignment_flag().to_string(), self.align.to_string());
        }
        if !same(c.get_speed(), self.speed) {
            return mm("speed", format!("{:e}", c.get_speed()), format!("{:e}", self.speed));
        }
        if !same(c.get_alpha(), self.alpha) {
            return mm("alpha", format!("{:e}", c.get_alpha()), format!("{:e}", self.alpha));
        }
        if !same(c.get_beta(), self.beta) {
            return mm("beta", format!("{:e}", c.get_beta()), format!("{:e}", self.beta));
        }
        if !same(c.get_additional_half_tone(), self.half) {
            return mm("half_tone", format!("{:e}", c.get_additional_half_tone()), format!("{:e}", self.half));
        }
        if weights {
            let iw = c.get_interporation_weight();
            let cmp = |name: &str, got: &[f64], want: &[f64]| -> Option<(String, String)> {
                if got.len() != want.len() || got.iter().zip(want).any(|(a, b)| a.to_bits() != b.to_bits()) {
                    Some((name.to_string(), format!("{}: getter returned {:?}, model says {:?}", name, got, want)))
                } else {
                    None
                }
            };
            if let Some(x) = cmp("weights.duration", iw.get_duration(), &self.wdur) {
                return Some(x);
            }
            for i in 0..self.nstream() {
                if let Some(x) = cmp("weights.parameter", iw.get_parameter(i), &self.wpar[i]) {
                    return Some(x);
                }
                if let Some(x) = cmp("weights.gv", iw.get_gv(i), &self.wgv[i]) {
                    return Some(x);
                }
            }
        }
        None
    }
}

/// Bits of everything observable about an engine's condition (for "no call changes the settings").
pub fn snapshot(c: &Condition, ns: usize) -> Vec<u64> {
    let mut v = vec![
        c.get_sampling_frequency() as u64,
        c.get_fperiod() as u64,
        c.get_volume().to_bits(),
        c.get_phoneme_alignment_flag() as u64,
        c.get_speed().to_bits(),
        c.get_alpha().to_bits(),
        c.get_beta().to_bits(),
        c.get_additional_half_tone().to_bits(),
    ];
    let iw = c.get_interporation_weight();
    v.extend(iw.get_duration().iter().map(|x| x.to_bits()));
    for i in 0..ns {
        v.push(c.get_msd_threshold(i).to_bits());
        v.push(c.get_gv_weight(i).to_bits());
        v.push(0xffff_0000 + i as u64);
        v.extend(iw.get_parameter(i).iter().map(|x| x.to_bits()));
        v.push(0xfffe_0000 + i as u64);
        v.extend(iw.get_gv(i).iter().map(|x| x.to_bits()));
    }
    v
}

// ---------------------------------------------------------------------------------------------

/// An engine a task owns, or one frozen and shared (`Arc`) between threads (layer L2a).
pub enum Eng {
    Owned(Engine),
    Shared(Arc<Engine>),
}

impl std::ops::Deref for Eng {
    type Target = Engine;
    fn deref(&self) -> &Engine {
        match self {
            Eng::Owned(e) => e,
            Eng::Shared(a) => a,
        }
    }
}

impl Eng {
    pub fn owned_mut(&mut self) -> Option<&mut Engine> {
        match self {
            Eng::Owned(e) => Some(e),
            Eng::Shared(_) => None,
        }
    }
    pub fn is_shared(&self) -> bool {
        matches!(self, Eng::Shared(_))
    }
}

pub struct EngineSlot {
    pub eng: Eng,
    pub vs_id: Vec<u32>,
    pub voices: Vec<VoiceRef>,
    pub model: CondModel,
    /// C19: engine that received only the updates the model accepted
    pub twin: Option<Engine>,
    pub heavy: bool,
    /// the `Arc<Voice>`s the engine was last built from, if the harness (playing the caller) kept them
    /// (Rebuild how 3); empty otherwise
    pub private_arcs: Vec<Arc<Voice>>,
}

pub struct GenSlot {
    pub gen: SpeechGenerator,
    pub fp: usize,
    pub frames: usize,
    pub cursor: usize,
    pub reference: Option<Rc<Vec<f64>>>,
    pub collected: Vec<f64>,
    pub key: String,
    pub last_task: u8,
    pub bufsizes_seen: u8,
    pub steps: usize,
    pub heavy: bool,
    /// C03: this generator is always stepped with `fperiod + c03_extra` samples (fixed per generator,
    /// different between generators), so generators over the same key are pulled with different buffer sizes
    pub c03_extra: usize,
}

/// A live generator on its way from one thread to another (L2a hand-over).
pub struct Parcel {
    gen: SpeechGenerator,
    fp: usize,
    frames: usize,
    cursor: usize,
    collected: Vec<f64>,
    key: String,
    bufsizes_seen: u8,
    steps: usize,
    heavy: bool,
    c03_extra: usize,
}

pub enum BoxState {
    Pending,
    Given(Box<Parcel>),
    Closed,
}

static BOXES: std::sync::Mutex<Vec<BoxState>> = std::sync::Mutex::new(Vec::new());

/// All mailboxes back to `Pending` (start of a pass over a plan).
pub fn boxes_reset() {
    let mut b = BOXES.lock().unwrap_or_else(|e| e.into_inner());
    b.clear();
    for _ in 0..4 {
        b.push(BoxState::Pending);
    }
}

/// The giver of mailbox `i` has finished its program: whoever waits for it stops waiting.
pub fn box_close_if_pending(i: usize) {
    let mut b = BOXES.lock().unwrap_or_else(|e| e.into_inner());
    if let Some(x) = b.get_mut(i) {
        if matches!(x, BoxState::Pending) {
            *x = BoxState::Closed;
        }
    }
    drop(b);
    crate::sched::notify_event();
}

#[derive(Clone)]
pub enum Outcome {
    Wave { hash: u64, wave: Rc<Vec<f64>> },
    Panic { class: String },
    Err,
}

pub struct KeyRec {
    pub first: Outcome,
    pub first_op: usize,
    pub first_task: u8,
    pub count: u32,
    pub tasks: u32,   // bitmask
    pub engines: u32, // bitmask of engine slots
}

pub const POISON: u64 = 0x8123_4567_89ab_cdef;

/// A waveform produced inside a run together with a canonical history (load, setters, one
/// synthesis) that reaches the same voice set, condition and labels from scratch. The canonical
/// history is executed in a pristine process; its output must be bit-identical (C03).
#[derive(Clone, Debug)]
pub struct RefKey {
    pub kind: u8, // 0 waveform
    pub hash: u64,
    pub len: usize,
    pub at_op: usize,
    pub canonical: Vec<TOp>,
}

#[derive(Default, Clone, Debug)]
pub struct Stats {
    pub ops: u64,
    pub noop_ops: u64,
    pub api_calls: u64,
    pub comparisons: u64,
    pub samples_compared: u64,
    pub vacuous: u64,
    pub probes: BTreeMap<String, u64>,
    pub kinds: BTreeMap<String, u64>,
}

impl Stats {
    pub fn probe(&mut self, name: &str) {
        *self.probes.entry(name.to_string()).or_insert(0) += 1;
    }
    pub fn merge(&mut self, o: &Stats) {
        self.ops += o.ops;
        self.noop_ops += o.noop_ops;
        self.api_calls += o.api_calls;
        self.comparisons += o.comparisons;
        self.samples_compared += o.samples_compared;
        self.vacuous += o.vacuous;
        for (k, v) in &o.probes {
            *self.probes.entry(k.clone()).or_insert(0) += v;
        }
        for (k, v) in &o.kinds {
            *self.kinds.entry(k.clone()).or_insert(0) += v;
        }
    }
}

pub struct Sim<'a> {
    pub prop: Prop,
    pub env: &'a mut Env,
    pub engines: Vec<Option<EngineSlot>>,
    pub gens: Vec<Option<GenSlot>>,
    pub keys: BTreeMap<String, KeyRec>,
    pub stats: Stats,
    pub op_index: usize,
    /// signature of the history for distinct counting
    pub trace_hash: u64,
    /// digest of everything observed (waveform hashes, return values): determinism check
    pub digest: u64,
    pub nontrivial: bool,
    /// candidates for the fresh-process reference (the most recent distinct keys)
    pub refs: Vec<RefKey>,
}

pub const MAX_ENGINES: usize = 6;
pub const MAX_GENS: usize = 6;

fn first_diff(a: &[f64], b: &[f64]) -> Option<usize> {
    if a.len() != b.len() {
        return Some(a.len().min(b.len()));
    }
    a.iter().zip(b).position(|(x, y)| !(x.to_bits() == y.to_bits() || (x.is_nan() && y.is_nan())))
}

macro_rules! array_form {
    ($eng:expr, $v:expr, $call:ident, $($n:literal),*) => {
        match $v.len() {
            $( $n => { let a: &[String; $n] = $v.as_slice().try_into().unwrap(); $eng.$call(a) } )*
            _ => $eng.$call($v.as_slice()),
        }
    };
}

pub fn bad_line(kind: u8, good: &str) -> String {
    match kind % 4 {
        0 => "this is not a label".to_string(),
        1 => format!("abc 123 {}", good),
        2 => "0 100".to_string(),
        _ => good.chars().take(20).collect(),
    }
}

impl<'a> Sim<'a> {
    pub fn new(prop: Prop, env: &'a mut Env) -> Sim<'a> {
        Sim {
            prop,
            env,
            engines: (0..MAX_ENGINES).map(|_| None).collect(),
            gens: (0..MAX_GENS).map(|_| None).collect(),
            keys: BTreeMap::new(),
            stats: Stats::default(),
            op_index: 0,
            trace_hash: 0,
            digest: 0,
            nontrivial: false,
            refs: Vec::new(),
        }
    }

    fn viol(&self, oracle: &'static str, class: impl Into<String>, detail: impl Into<String>) -> Stop {
        Stop::Violation(Violation { oracle, class: class.into(), detail: detail.into(), op_index: self.op_index })
    }

    fn note(&mut self, x: u64) {
        self.trace_hash = crate::rng::mix(&[self.trace_hash, x]);
    }

    pub fn synth_key(&self, e: &EngineSlot, utt: &Utt, form: Form) -> String {
        let snap = snapshot(&e.eng.condition, e.model.nstream());
        let mut s = String::with_capacity(256);
        use std::fmt::Write;
        let _ = write!(s, "vs{:?}|", e.vs_id);
        for x in snap {
            let _ = write!(s, "{:x},", x);
        }
        let _ = write!(s, "|va{:?}|{}|{}", e.model.vol_arg, form.name(), utt.to_text());
        s
    }

    /// Shortest history that reaches this engine's voice set and observable condition from a fresh
    /// load, followed by one synthesis of `utt`.
    pub fn canonical_ops(slot: &EngineSlot, utt: &Utt, form: Form) -> Vec<TOp> {
        let m = &slot.model;
        let mut ops = vec![TOp { task: 0, op: Op::Load { e: 0, voices: slot.voices.clone(), via_files: false } }];
        let mut set = |s: Setter| ops.push(TOp { task: 0, op: Op::Set { e: 0, s } });
        set(Setter::SamplingFrequency(m.sf));
        set(Setter::Fperiod(m.fp));
        if let Some(v) = m.vol_arg {
            set(Setter::Volume(f64::from_bits(v)));
        }
        for i in 0..m.nstream() {
            set(Setter::Msd(i, m.msd[i]));
            set(Setter::GvWeight(i, m.gvw[i]));
        }
        set(Setter::Align(m.align));
        set(Setter::Speed(m.speed));
        set(Setter::Alpha(m.alpha));
        set(Setter::Beta(m.beta));
        set(Setter::HalfTone(m.half));
        // weights: only those that were set (they have an exact sum of 1; the 1/n defaults may not)
        let avg = 1.0f64 / m.nvoices as f64;
        let is_default = |w: &Vec<f64>| w.iter().all(|x| x.to_bits() == avg.to_bits());
        if !is_default(&m.wdur) {
            ops.push(TOp { task: 0, op: Op::SetW { e: 0, which: Which::Dur, w: m.wdur.clone() } });
        }
        for i in 0..m.nstream() {
            if !is_default(&m.wpar[i]) {
                ops.push(TOp { task: 0, op: Op::SetW { e: 0, which: Which::Par(i), w: m.wpar[i].clone() } });
            }
            if !is_default(&m.wgv[i]) {
                ops.push(TOp { task: 0, op: Op::SetW { e: 0, which: Which::Gv(i), w: m.wgv[i].clone() } });
            }
        }
        ops.push(TOp { task: 0, op: Op::Synth { e: 0, utt: utt.clone(), form } });
        ops
    }

    fn labels_call<T>(
        env: &mut Env,
        eng: &Engine,
        utt: &Utt,
        form: Form,
        bad: Option<(usize, u8)>,
        f_slice: impl FnOnce(&Engine, &[String]) -> T,
        f_other: impl FnOnce(&Engine, LabelInput) -> T,
    ) -> Result<T, HarnessError> {
        let mut strings = env.utt_strings(utt);
        if let Some((at, kind)) = bad {
            let good = strings.get(at).cloned().unwrap_or_default();
            let b = bad_line(kind, &good);
            if at < strings.len() {
                strings[at] = b;
            } else {
                strings.push(b);
            }
        }
        Ok(match form {
            Form::Slice => f_slice(eng, &strings),
            Form::SliceBlank => {
                let mut v = Vec::with_capacity(strings.len() * 2 + 1);
                v.push(String::new());
                for s in strings {
                    v.push(s);
                    v.push(String::new());
                }
                f_slice(eng, &v)
            }
            Form::Array => f_other(eng, LabelInput::Array(strings)),
            Form::VecString => f_other(eng, LabelInput::VecString(strings)),
            Form::VecLabel => {
                let mut ls = Vec::with_capacity(utt.lines.len());
                for idx in &utt.lines {
                    ls.push(env.label(*idx).map_err(HarnessError)?);
                }
                f_other(eng, LabelInput::Labels(ls))
            }
        })
    }

    /// engine.synthesize in the requested input form
    fn do_synth(env: &mut Env, eng: &Engine, utt: &Utt, form: Form, bad: Option<(usize, u8)>) -> Result<Result<Result<Vec<f64>, String>, PanicNote>, HarnessError> {
        // deterministic fuel: generous (a synthesis of 25 k frames with the postfilter on passes ~10^8 hook
        // sites); it only has to end a call that makes no progress at all
        let budget = 1_000_000_000u64;
        Self::labels_call(
            env,
            eng,
            utt,
            form,
            bad,
            |eng, s| with_fuel(budget, || guarded(|| eng.synthesize(s).map_err(|e| e.to_string()))),
            |eng, li| {
                with_fuel(budget, || {
                    guarded(|| {
                        match li {
                            LabelInput::Array(v) => array_form!(eng, v, synthesize, 0, 1, 2, 3, 4, 5, 6, 7, 8, 9, 10, 11, 12),
                            LabelInput::VecString(v) => eng.synthesize(v),
                            LabelInput::Labels(l) => eng.synthesize(l),
                        }
                        .map_err(|e| e.to_string())
                    })
                })
            },
        )
    }

    fn do_generator(env: &mut Env, eng: &Engine, utt: &Utt) -> Result<Result<Result<SpeechGenerator, String>, PanicNote>, HarnessError> {
        Self::labels_call(
            env,
            eng,
            utt,
            Form::Slice,
            None,
            |eng, s| with_fuel(1_000_000_000, || guarded(|| eng.generator(s).map_err(|e| e.to_string()))),
            |_, _| unreachable!(),
        )
    }

    fn build_engine(&mut self, voices: &[VoiceRef], via_files: bool) -> Result<Option<(Engine, Vec<u32>)>, Stop> {
        let mut arcs: Vec<Arc<Voice>> = Vec::new();
        let mut ids = Vec::new();
        for v in voices {
            let (a, id) = self.env.voice(v).map_err(|e| Stop::Harness(HarnessError(e)))?;
            arcs.push(a);
            ids.push(id);
        }
        self.stats.api_calls += 1;
        let r = if via_files {
            let mut paths = Vec::new();
            for v in voices {
                paths.push(self.env.voice_path(v).map_err(|e| Stop::Harness(HarnessError(e)))?);
            }
            guarded(|| Engine::load(&paths).map_err(|e| e.to_string()))
        } else {
            guarded(|| {
                let vs = VoiceSet::new(arcs).map_err(|e| e.to_string())?;
                let mut c = Condition::default();
                c.load_model(&vs).map_err(|e| e.to_string())?;
                Ok(Engine::new(vs, c))
            })
        };
        match r {
            Ok(Ok(e)) => Ok(Some((e, ids))),
            Ok(Err(e)) => Err(Stop::Harness(HarnessError(format!("engine over fault-free compatible voices {:?} refused: {}", voices.iter().map(|v| v.to_text()).collect::<Vec<_>>(), e)))),
            Err(p) => Err(Stop::Harness(HarnessError(format!("engine construction panicked: {} @{}:{}", p.msg, p.file, p.line)))),
        }
    }

    /// Check the touched engine against its model (all getters).
    fn check_model(&mut self, e: usize, oracle: &'static str) -> Result<(), Stop> {
        let slot = self.engines[e].as_ref().unwrap();
        self.stats.comparisons += 1;
        match guarded(|| slot.model.compare(&slot.eng.condition, true)) {
            Ok(Some((field, text))) => return Err(self.viol(oracle, format!("getter-mismatch:{}", field), text)),
            Ok(None) => {}
            // a getter that panics for an in-range stream index does not "return exactly the stored value"
            Err(p) => return Err(self.viol(oracle, "getter-panicked", format!("a getter panicked: {} @{}:{}", p.msg, p.file, p.line))),
        }
        Ok(())
    }

    fn record_outcome(&mut self, key: String, out: Outcome, task: u8, eslot: usize) -> Result<(), Stop> {
        let opi = self.op_index;
        self.digest = crate::rng::mix(&[self.digest, match &out { Outcome::Wave { hash, .. } => *hash, Outcome::Panic { .. } => 1, Outcome::Err => 2 }]);
        if let Some(rec) = self.keys.get_mut(&key) {
            rec.count += 1;
            rec.tasks |= 1 << (task as u32 % 32);
            rec.engines |= 1 << (eslot as u32 % 32);
            self.stats.comparisons += 1;
            self.nontrivial = true;
            if rec.tasks.count_ones() >= 2 {
                self.stats.probe("same_key_on_two_tasks");
            }
            if rec.engines.count_ones() >= 2 {
                self.stats.probe("same_key_on_two_engine_slots");
            }
            let first = rec.first.clone();
            let (first_op, first_task) = (rec.first_op, rec.first_task);
            match (&first, &out) {
                (Outcome::Wave { hash: h1, wave: w1 }, Outcome::Wave { hash: h2, wave: w2 }) => {
                    self.stats.samples_compared += w1.len() as u64;
                    if h1 != h2 || first_diff(w1, w2).is_some() {
                        let d = first_diff(w1, w2).unwrap_or(0);
                        return Err(self.viol(
                            "C03.same-key-same-waveform",
                            "waveform-differs",
                            format!(
                                "same voice set, condition and labels gave different waveforms: op#{} (task {}) vs op#{} (task {}); lengths {} / {}; first differing sample {} ({:e} vs {:e})",
                                first_op,
                                first_task,
                                opi,
                                task,
                                w1.len(),
                                w2.len(),
                                d,
                                w1.get(d).copied().unwrap_or(f64::NAN),
                                w2.get(d).copied().unwrap_or(f64::NAN)
                            ),
                        ));
                    }
                }
                (Outcome::Panic { .. }, Outcome::Panic { .. }) | (Outcome::Err, Outcome::Err) => {}
                (a, b) => {
                    let name = |o: &Outcome| match o {
                        Outcome::Wave { .. } => "waveform",
                        Outcome::Panic { .. } => "panic",
                        Outcome::Err => "error",
                    };
                    return Err(self.viol(
                        "C03.same-key-same-waveform",
                        format!("outcome-differs:{}-vs-{}", name(a), name(b)),
                        format!("same voice set, condition and labels: op#{} gave {}, op#{} gave {}", first_op, name(a), opi, name(b)),
                    ));
                }
            }
        } else {
            self.keys.insert(key, KeyRec { first: out, first_op: opi, first_task: task, count: 1, tasks: 1 << (task as u32 % 32), engines: 1 << (eslot as u32 % 32) });
        }
        Ok(())
    }

    /// Execute one op. Ops on empty slots are no-ops (so any subsequence of a history is executable).
    pub fn exec(&mut self, top: &TOp) -> Result<(), Stop> {
        let mut r = self.exec_inner(top);
        if r.is_ok() && self.prop != Prop::C02 {
            // every engine, not only the one the op touched: a clone that shares state with its
            // source, or a setter that reaches into a neighbour, shows up here
            r = self.check_all_models();
        }
        self.op_index += 1;
        r
    }

    fn check_all_models(&mut self) -> Result<(), Stop> {
        let oracle = match self.prop {
            Prop::C19 => "C19.weights-model",
            Prop::C20 => "C20.setter-model",
            _ => "C03.settings-model",
        };
        for e in 0..self.engines.len() {
            if self.engines[e].is_some() {
                let slot = self.engines[e].as_ref().unwrap();
                self.stats.comparisons += 1;
                match guarded(|| slot.model.compare(&slot.eng.condition, true)) {
                    Ok(Some((field, text))) => return Err(self.viol(oracle, format!("getter-mismatch:{}", field), format!("engine slot e{}: {}", e, text))),
                    Ok(None) => {}
                    Err(p) => return Err(self.viol(oracle, "getter-panicked", format!("engine slot e{}: a getter panicked: {} @{}:{}", e, p.msg, p.file, p.line))),
                }
            }
        }
        Ok(())
    }

    fn exec_inner(&mut self, top: &TOp) -> Result<(), Stop> {
        self.stats.ops += 1;
        *self.stats.kinds.entry(top.kind().to_string()).or_insert(0) += 1;
        let task = top.task;
        match &top.op {
            Op::Load { e, voices, via_files } => {
                if *e >= MAX_ENGINES || voices.is_empty() {
                    self.stats.noop_ops += 1;
                    return Ok(());
                }
                let Some((eng, ids)) = self.build_engine(voices, *via_files)? else { return Ok(()) };
                let model = CondModel::fresh(&eng, voices.len());
                let twin = if self.prop == Prop::C19 { Some(eng.clone()) } else { None };
                let heavy = voices.iter().any(|v| !matches!(v, VoiceRef::Gen(_)));
                self.engines[*e] = Some(EngineSlot { eng: Eng::Owned(eng), vs_id: ids, voices: voices.clone(), model, twin, heavy, private_arcs: Vec::new() });
                self.note(0x10 + *e as u64);
                if matches!(self.prop, Prop::C20 | Prop::C19 | Prop::C03) {
                    // defaults of a freshly loaded engine
                    self.check_model(*e, if self.prop == Prop::C19 { "C19.weights-model" } else if self.prop == Prop::C20 { "C20.fresh-defaults" } else { "C03.settings-model" })?;
                }
                Ok(())
            }
            Op::CloneEngine { src, dst } => {
                if *src >= MAX_ENGINES || *dst >= MAX_ENGINES || src == dst || self.engines[*src].is_none() {
                    self.stats.noop_ops += 1;
                    return Ok(());
                }
                let s = self.engines[*src].as_ref().unwrap();
                self.stats.api_calls += 1;
                let cl = guarded(|| Engine::clone(&s.eng));
                let cl = match cl {
                    Ok(c) => c,
                    Err(p) => return Err(self.viol("C03.clone", "clone-panicked", format!("Engine::clone panicked: {}", p.msg))),
                };
                let ns = s.model.nstream();
                let a = snapshot(&s.eng.condition, ns);
                let b = snapshot(&cl.condition, ns);
                let slot = EngineSlot { eng: Eng::Owned(cl), vs_id: s.vs_id.clone(), voices: s.voices.clone(), model: s.model.clone(), twin: s.twin.clone(), heavy: s.heavy, private_arcs: s.private_arcs.clone() };
                self.engines[*dst] = Some(slot);
                self.stats.probe("clone");
                self.note(0x20 + (*src * 8 + *dst) as u64);
                if self.prop == Prop::C03 && a != b {
                    return Err(self.viol("C03.clone", "clone-settings-differ", "a clone's observable settings differ from its source at clone time"));
                }
                if self.prop != Prop::C02 {
                    self.check_model(*dst, match self.prop { Prop::C19 => "C19.weights-model", Prop::C20 => "C20.setter-model", _ => "C03.settings-model" })?;
                }
                Ok(())
            }
            Op::CloneFrom { src, dst } => {
                if *src >= MAX_ENGINES || *dst >= MAX_ENGINES || src == dst || self.engines[*src].is_none() {
                    self.stats.noop_ops += 1;
                    return Ok(());
                }
                if self.engines[*dst].as_ref().map(|d| d.eng.is_shared()).unwrap_or(true) {
                    // nothing to clone into: behave like a plain clone
                    return self.exec_inner(&TOp { task, op: Op::CloneEngine { src: *src, dst: *dst } });
                }
                let mut d = self.engines[*dst].take().unwrap();
                let s = self.engines[*src].as_ref().unwrap();
                self.stats.api_calls += 1;
                let r = {
                    let target = d.eng.owned_mut().unwrap();
                    let source: &Engine = &s.eng;
                    guarded(|| target.clone_from(source))
                };
                if let (Some(t), Some(st)) = (d.twin.as_mut(), s.twin.as_ref()) {
                    let _ = guarded(|| t.clone_from(st));
                }
                d.vs_id = s.vs_id.clone();
                d.voices = s.voices.clone();
                d.model = s.model.clone();
                d.heavy = s.heavy;
                d.private_arcs = s.private_arcs.clone();
                let ns = s.model.nstream();
                let a = snapshot(&s.eng.condition, ns);
                let b = snapshot(&d.eng.condition, ns);
                self.engines[*dst] = Some(d);
                self.stats.probe("clone_from");
                self.note(0x28 + (*src * 8 + *dst) as u64);
                if let Err(p) = r {
                    return Err(self.viol("C03.clone", "clone-from-panicked", format!("Engine::clone_from panicked: {}", p.msg)));
                }
                if self.prop == Prop::C03 && a != b {
                    return Err(self.viol("C03.clone", "clone-from-settings-differ", "after dst.clone_from(&src) the observable settings of dst differ from src"));
                }
                Ok(())
            }
            Op::Rebuild { e, how } => {
                let Some(slot) = self.engines.get_mut(*e).and_then(|x| x.as_mut()) else {
                    self.stats.noop_ops += 1;
                    return Ok(());
                };
                if slot.eng.is_shared() {
                    self.stats.noop_ops += 1;
                    return Ok(());
                }
                self.stats.api_calls += 1;
                let how = if self.prop == Prop::C03 || self.prop == Prop::C02 { *how % 5 } else { *how % 3 };
                // how 3 / 4: the same voices by content, in other allocations / in shared allocations
                let mut new_arcs: Vec<Arc<Voice>> = Vec::new();
                if how >= 3 {
                    let refs = slot.voices.clone();
                    for v in &refs {
                        let (a, _) = self.env.voice(v).map_err(|e| Stop::Harness(HarnessError(e)))?;
                        new_arcs.push(if how == 3 { Arc::new((*a).clone()) } else { a });
                    }
                }
                let slot = self.engines[*e].as_mut().unwrap();
                if how >= 3 {
                    slot.private_arcs = if how == 3 { new_arcs.clone() } else { Vec::new() };
                }
                let r = {
                    let eng = slot.eng.owned_mut().unwrap();
                    guarded(|| match how {
                        3 | 4 => {
                            let vs = VoiceSet::new(new_arcs.clone()).expect("equal voices are combinable");
                            let rebuilt = Engine::new(vs, eng.condition.clone());
                            *eng = rebuilt;
                        }
                        0 => {
                            let rebuilt = Engine::new(eng.voices.clone(), eng.condition.clone());
                            *eng = rebuilt;
                        }
                        1 => {
                            // the condition is moved out (a default one is left behind for a moment) and handed to
                            // Engine::new; no struct literal: a private field added to Engine must not break this harness
                            let c = std::mem::take(&mut eng.condition);
                            let rebuilt = Engine::new(eng.voices.clone(), c);
                            *eng = rebuilt;
                        }
                        _ => {
                            let c = eng.condition.clone();
                            eng.condition = c;
                        }
                    })
                };
                self.stats.probe(&format!("engine_rebuilt_from_parts:{}", how));
                self.note(0x5200 + (*e * 4) as u64 + how as u64);
                if let Err(p) = r {
                    return Err(self.viol(
                        match self.prop { Prop::C19 => "C19.weights-model", Prop::C20 => "C20.setter-model", _ => "C03.settings-model" },
                        "rebuild-panicked",
                        format!("re-assembling an engine from its own voices and condition panicked: {}", p.msg),
                    ));
                }
                if self.prop != Prop::C02 {
                    // an engine assembled from a customised condition reports exactly that condition
                    self.check_model(*e, match self.prop { Prop::C19 => "C19.weights-model", Prop::C20 => "C20.setter-model", _ => "C03.settings-model" })?;
                }
                Ok(())
            }
            Op::ReplaceInPlace { e, voices } => {
                let usable = self.engines.get(*e).and_then(|x| x.as_ref()).map(|s| !s.eng.is_shared() && !s.private_arcs.is_empty() && s.private_arcs.len() == voices.len() && s.twin.is_none()).unwrap_or(false);
                if !usable {
                    self.stats.noop_ops += 1;
                    return Ok(());
                }
                let mut contents: Vec<Voice> = Vec::new();
                let mut ids = Vec::new();
                for v in voices {
                    let (a, id) = self.env.voice(v).map_err(|e| Stop::Harness(HarnessError(e)))?;
                    contents.push((*a).clone());
                    ids.push(id);
                }
                {
                    // only voices with the very same metadata: the condition stays valid as it is
                    let cur = &self.engines[*e].as_ref().unwrap().private_arcs;
                    let same = cur.iter().zip(&contents).all(|(a, b)| a.metadata == b.metadata && a.stream_models.len() == b.stream_models.len() && a.stream_models.iter().zip(&b.stream_models).all(|(x, y)| x.metadata == y.metadata));
                    if !same {
                        self.stats.noop_ops += 1;
                        return Ok(());
                    }
                }
                let old = self.engines[*e].take().unwrap();
                let EngineSlot { eng, vs_id: old_ids, voices: old_voices, model, twin, heavy, mut private_arcs } = old;
                let Eng::Owned(engine) = eng else { unreachable!() };
                let cond = engine.condition.clone();
                self.stats.api_calls += 1;
                drop(engine); // the caller drops the engine and is now the only owner of the voices ...
                let unique = private_arcs.iter().all(|a| Arc::strong_count(a) == 1);
                let (new_ids, new_voices) = if unique {
                    for (a, c) in private_arcs.iter_mut().zip(contents) {
                        *Arc::get_mut(a).expect("unique") = c; // ... overwrites them in place ...
                    }
                    self.stats.probe("voices_replaced_in_place_at_the_same_address");
                    (ids, voices.clone())
                } else {
                    // a clone of the engine is still alive: nothing is overwritten
                    (old_ids, old_voices)
                };
                let arcs = private_arcs.clone();
                let r = guarded(|| VoiceSet::new(arcs).map(|vs| Engine::new(vs, cond)).map_err(|e| e.to_string())); // ... and builds it again
                self.note(0x6100 + *e as u64);
                match r {
                    Ok(Ok(engine)) => {
                        self.engines[*e] = Some(EngineSlot { eng: Eng::Owned(engine), vs_id: new_ids, voices: new_voices, model, twin, heavy, private_arcs });
                        if self.prop != Prop::C02 {
                            self.check_model(*e, "C03.settings-model")?;
                        }
                        Ok(())
                    }
                    Ok(Err(e)) => Err(Stop::Harness(HarnessError(format!("engine over voices replaced in place refused: {}", e)))),
                    Err(p) => Err(Stop::Harness(HarnessError(format!("engine over voices replaced in place panicked: {}", p.msg)))),
                }
            }
            Op::CloneCond { src, dst } => {
                if *src >= MAX_ENGINES || *dst >= MAX_ENGINES || src == dst || self.engines[*src].is_none() || self.engines[*dst].is_none() {
                    self.stats.noop_ops += 1;
                    return Ok(());
                }
                if self.engines[*dst].as_ref().unwrap().eng.is_shared() || self.engines[*src].as_ref().unwrap().vs_id != self.engines[*dst].as_ref().unwrap().vs_id {
                    self.stats.noop_ops += 1;
                    return Ok(());
                }
                let mut d = self.engines[*dst].take().unwrap();
                let s = self.engines[*src].as_ref().unwrap();
                self.stats.api_calls += 1;
                let r = {
                    let target = d.eng.owned_mut().unwrap();
                    let source: &Engine = &s.eng;
                    guarded(|| target.condition.clone_from(&source.condition))
                };
                if let (Some(t), Some(st)) = (d.twin.as_mut(), s.twin.as_ref()) {
                    let _ = guarded(|| t.condition.clone_from(&st.condition));
                }
                d.model = s.model.clone();
                self.engines[*dst] = Some(d);
                self.stats.probe("condition_clone_from");
                self.note(0x2c + (*src * 8 + *dst) as u64);
                if let Err(p) = r {
                    return Err(self.viol("C03.clone", "condition-clone-from-panicked", format!("Condition::clone_from panicked: {}", p.msg)));
                }
                Ok(())
            }
            Op::Reload { e, voices } => {
                if voices.is_empty() || self.engines.get(*e).and_then(|x| x.as_ref()).map(|x| x.eng.is_shared()).unwrap_or(true) {
                    self.stats.noop_ops += 1;
                    return Ok(());
                }
                let mut arcs: Vec<Arc<Voice>> = Vec::new();
                let mut ids = Vec::new();
                for v in voices {
                    let (a, id) = self.env.voice(v).map_err(|e| Stop::Harness(HarnessError(e)))?;
                    arcs.push(a);
                    ids.push(id);
                }
                let slot = self.engines[*e].as_mut().unwrap();
                self.stats.api_calls += 1;
                let reload = |eng: &mut Engine, arcs: Vec<Arc<Voice>>| -> Result<(), String> {
                    let vs = VoiceSet::new(arcs).map_err(|e| e.to_string())?;
                    eng.condition.load_model(&vs).map_err(|e| e.to_string())?;
                    eng.voices = vs;
                    Ok(())
                };
                let r = {
                    let eng = slot.eng.owned_mut().unwrap();
                    let a2 = arcs.clone();
                    guarded(|| reload(eng, a2))
                };
                if let Some(t) = slot.twin.as_mut() {
                    let a2 = arcs.clone();
                    let _ = guarded(|| reload(t, a2));
                }
                match r {
                    Ok(Ok(())) => {}
                    Ok(Err(e)) => return Err(Stop::Harness(HarnessError(format!("reload of compatible fault-free voices refused: {}", e)))),
                    Err(p) => return Err(Stop::Harness(HarnessError(format!("reload panicked: {}", p.msg)))),
                }
                // model: load_model resets the voice-derived settings and the weights, keeps the rest
                let old = slot.model.clone();
                let mut m = CondModel::fresh(&slot.eng, voices.len());
                m.vol_arg = old.vol_arg;
                m.vol_seen = old.vol_seen;
                m.align = old.align;
                m.speed = old.speed;
                m.beta = old.beta;
                m.half = old.half;
                slot.model = m;
                slot.vs_id = ids;
                slot.voices = voices.clone();
                slot.private_arcs.clear();
                slot.heavy = voices.iter().any(|v| !matches!(v, VoiceRef::Gen(_)));
                self.stats.probe("reload_voice_set");
                self.nontrivial = true;
                self.note(0x18 + *e as u64);
                Ok(())
            }
            Op::ReloadBad { e, kind } => {
                let usable = self.engines.get(*e).and_then(|x| x.as_ref()).map(|s| !s.eng.is_shared()).unwrap_or(false);
                if !usable || !matches!(self.prop, Prop::C19 | Prop::C20) {
                    self.stats.noop_ops += 1;
                    return Ok(());
                }
                let refs = self.engines[*e].as_ref().unwrap().voices.clone();
                let bad = ["GAMMA=two", "LN_GAIN=yes", "ALPHA=0,55"][*kind as usize % 3];
                let mut arcs: Vec<Arc<Voice>> = Vec::new();
                let mut alphas: Vec<f64> = Vec::new();
                for v in &refs {
                    let (a, _) = self.env.voice(v).map_err(|e| Stop::Harness(HarnessError(e)))?;
                    let mut c: Voice = (*a).clone();
                    if let Some(sm) = c.stream_models.first_mut() {
                        for o in &sm.metadata.option {
                            if let Some(x) = o.strip_prefix("ALPHA=").and_then(|x| x.parse::<f64>().ok()) {
                                alphas.push(x);
                            }
                        }
                        sm.metadata.option.push(bad.to_string());
                    }
                    arcs.push(Arc::new(c));
                }
                let vs = match guarded(|| VoiceSet::new(arcs)) {
                    Ok(Ok(vs)) => vs,
                    _ => return Err(Stop::Harness(HarnessError("voices that differ from valid ones only by one more option string were not combinable".into()))),
                };
                let (new_sf, new_fp) = (vs.global_metadata().sampling_frequency, vs.global_metadata().frame_period);
                let slot = self.engines[*e].as_mut().unwrap();
                self.stats.api_calls += 1;
                let r = {
                    let eng = slot.eng.owned_mut().unwrap();
                    guarded(|| eng.condition.load_model(&vs).map_err(|e| e.to_string()))
                };
                if let Some(t) = slot.twin.as_mut() {
                    let _ = guarded(|| t.condition.load_model(&vs).map_err(|e| e.to_string()));
                }
                self.note(0x7100 + (*e * 4) as u64 + *kind as u64 % 3);
                let oracle = if self.prop == Prop::C19 { "C19.weights-model" } else { "C20.setter-model" };
                match r {
                    Ok(Err(_)) => self.stats.probe("failed_load_model"),
                    Ok(Ok(())) => self.stats.probe("malformed_option_accepted_by_load_model"),
                    Err(_) => self.stats.probe("load_model_panicked_on_malformed_option"),
                }
                // whatever happened: each setting is the old one or the one a successful load installs
                let slot = self.engines[*e].as_mut().unwrap();
                let old = slot.model.clone();
                let n = old.nvoices;
                let avg = 1.0f64 / n as f64;
                let c = &slot.eng.condition;
                let seen = guarded(|| {
                    let ns = old.nstream();
                    let iw = c.get_interporation_weight();
                    (
                        c.get_sampling_frequency(),
                        c.get_fperiod(),
                        (0..ns).map(|i| c.get_msd_threshold(i)).collect::<Vec<f64>>(),
                        (0..ns).map(|i| c.get_gv_weight(i)).collect::<Vec<f64>>(),
                        c.get_alpha(),
                        (c.get_speed(), c.get_beta(), c.get_additional_half_tone(), c.get_phoneme_alignment_flag(), c.get_volume()),
                        iw.get_duration().to_vec(),
                        (0..ns).map(|i| iw.get_parameter(i).to_vec()).collect::<Vec<Vec<f64>>>(),
                        (0..ns).map(|i| iw.get_gv(i).to_vec()).collect::<Vec<Vec<f64>>>(),
                    )
                });
                let (sf, fp, msd, gvw, alpha, rest, wdur, wpar, wgv) = match seen {
                    Ok(x) => x,
                    Err(p) => return Err(self.viol(oracle, "getter-panicked", format!("after a failed load_model a getter panicked: {}", p.msg))),
                };
                let bad_field = |name: &str, got: String| Stop::Violation(Violation { oracle, class: format!("after-failed-load:{}", name), detail: format!("after a load_model that failed on option {:?}, {} reads {} - neither its previous value nor the default of a successful load", bad, name, got), op_index: self.op_index });
                if sf != old.sf && sf != new_sf {
                    return Err(bad_field("sampling_frequency", sf.to_string()));
                }
                if fp != old.fp && fp != new_fp {
                    return Err(bad_field("fperiod", fp.to_string()));
                }
                for i in 0..old.nstream() {
                    if !same(msd[i], old.msd[i]) && !same(msd[i], 0.5) {
                        return Err(bad_field("msd_threshold", format!("[{}]={:e}", i, msd[i])));
                    }
                    if !same(gvw[i], old.gvw[i]) && !same(gvw[i], 1.0) {
                        return Err(bad_field("gv_weight", format!("[{}]={:e}", i, gvw[i])));
                    }
                }
                if !same(alpha, old.alpha) && !alphas.iter().any(|a| same(*a, alpha)) {
                    return Err(bad_field("alpha", format!("{:e}", alpha)));
                }
                if !same(rest.0, old.speed) || !same(rest.1, old.beta) || !same(rest.2, old.half) || rest.3 != old.align || rest.4.to_bits() != old.vol_seen {
                    return Err(bad_field("speed/beta/half_tone/alignment/volume", format!("{:?}", rest)));
                }
                let wok = |got: &Vec<f64>, was: &Vec<f64>| got.len() == was.len() && (got.iter().zip(was).all(|(a, b)| a.to_bits() == b.to_bits()) || got.iter().all(|a| a.to_bits() == avg.to_bits()));
                if !wok(&wdur, &old.wdur) || (0..old.nstream()).any(|i| !wok(&wpar[i], &old.wpar[i]) || !wok(&wgv[i], &old.wgv[i])) {
                    return Err(bad_field("interpolation weights", format!("{:?}", wdur)));
                }
                // adopt what was observed: which of the two it is, is the implementation's business
                let m = &mut slot.model;
                m.sf = sf;
                m.fp = fp;
                m.msd = msd;
                m.gvw = gvw;
                m.alpha = alpha;
                m.wdur = wdur;
                m.wpar = wpar;
                m.wgv = wgv;
                self.nontrivial = true;
                Ok(())
            }
            Op::DropEngine { e } => {
                if *e < MAX_ENGINES && self.engines[*e].is_some() {
                    self.engines[*e] = None;
                    self.stats.probe("engine_dropped");
                    if self.gens.iter().flatten().count() > 0 {
                        self.stats.probe("engine_dropped_while_generators_live");
                    }
                } else {
                    self.stats.noop_ops += 1;
                }
                Ok(())
            }
            Op::Set { e, s } => {
                let Some(slot) = self.engines.get_mut(*e).and_then(|x| x.as_mut()) else {
                    self.stats.noop_ops += 1;
                    return Ok(());
                };
                if slot.eng.is_shared() {
                    self.stats.noop_ops += 1;
                    return Ok(()); // a frozen-shared engine is only ever used through &self
                }
                let ns = slot.model.nstream();
                let idx_ok = match s {
                    Setter::Msd(i, _) | Setter::GvWeight(i, _) => *i < ns,
                    _ => true,
                };
                if !idx_ok {
                    self.stats.noop_ops += 1;
                    return Ok(()); // out-of-range stream index is a documented precondition
                }
                self.stats.api_calls += 1;
                if let Setter::Msd(i, _) | Setter::GvWeight(i, _) = s {
                    if *i >= 3 {
                        self.stats.probe("per_stream_setter_on_stream_index_3_or_later");
                    }
                }
                let apply = |c: &mut Condition| match *s {
                    Setter::SamplingFrequency(i) => c.set_sampling_frequency(i),
                    Setter::Fperiod(i) => c.set_fperiod(i),
                    Setter::Volume(f) => c.set_volume(f),
                    Setter::Msd(i, f) => c.set_msd_threshold(i, f),
                    Setter::GvWeight(i, f) => c.set_gv_weight(i, f),
                    Setter::Align(b) => c.set_phoneme_alignment_flag(b),
                    Setter::Speed(f) => c.set_speed(f),
                    Setter::Alpha(f) => c.set_alpha(f),
                    Setter::Beta(f) => c.set_beta(f),
                    Setter::HalfTone(f) => c.set_additional_half_tone(f),
                };
                let before = slot.model.clone();
                let r = guarded(|| apply(&mut slot.eng.owned_mut().unwrap().condition));
                if let Some(t) = slot.twin.as_mut() {
                    let _ = guarded(|| apply(&mut t.condition));
                }
                slot.model.apply(s);
                if let Setter::Volume(_) = s {
                    slot.model.vol_seen = slot.eng.condition.get_volume().to_bits();
                }
                // probes: clamp actually applied
                let clamped = match *s {
                    Setter::SamplingFrequency(i) => i < 1,
                    Setter::Fperiod(i) => i < 1,
                    Setter::Msd(_, f) | Setter::Alpha(f) | Setter::Beta(f) => !(0.0..=1.0).contains(&f),
                    Setter::GvWeight(_, f) => f < 0.0,
                    Setter::Speed(f) => f < 1.0e-6,
                    _ => false,
                };
                if clamped {
                    self.stats.probe(&format!("clamp_applied:{}", s.name()));
                }
                if before != self.engines[*e].as_ref().unwrap().model {
                    self.nontrivial = true;
                }
                self.note(crate::rng::hash_bytes(s.to_text().as_bytes()) ^ *e as u64);
                if let Err(p) = r {
                    if self.prop == Prop::C20 {
                        return Err(self.viol("C20.setter-model", format!("setter-panicked:{}", s.name()), format!("{} panicked: {}", s.to_text(), p.msg)));
                    }
                }
                if self.prop != Prop::C02 {
                    self.check_model(*e, match self.prop { Prop::C19 => "C19.weights-model", Prop::C20 => "C20.setter-model", _ => "C03.settings-model" })?;
                }
                Ok(())
            }
            Op::SetW { e, which, w } => {
                let Some(slot) = self.engines.get_mut(*e).and_then(|x| x.as_mut()) else {
                    self.stats.noop_ops += 1;
                    return Ok(());
                };
                if slot.eng.is_shared() {
                    self.stats.noop_ops += 1;
                    return Ok(());
                }
                let ns = slot.model.nstream();
                let ok_idx = match which {
                    Which::Dur => true,
                    Which::Par(i) | Which::Gv(i) => *i < ns,
                };
                if !ok_idx {
                    self.stats.noop_ops += 1;
                    return Ok(());
                }
                // model verdict. The generator only emits vectors that are unambiguous:
                //   valid   = right length and left-to-right f64 sum exactly 1.0
                //   invalid = wrong length, or |sum-1| >= 1e-6, or a NaN component
                let n = slot.model.nvoices;
                let sum: f64 = w.iter().sum();
                let valid = w.len() == n && sum == 1.0;
                let clearly_invalid = w.len() != n || !((sum - 1.0).abs() < 1e-6);
                if !valid && !clearly_invalid {
                    // under-specified tolerance zone: never judged
                    self.stats.noop_ops += 1;
                    return Ok(());
                }
                self.stats.api_calls += 1;
                let call = |c: &mut Condition| {
                    let iw = c.get_interporation_weight_mut();
                    match which {
                        Which::Dur => iw.set_duration(w),
                        Which::Par(i) => iw.set_parameter(*i, w),
                        Which::Gv(i) => iw.set_gv(*i, w),
                    }
                    .map_err(|e| e.to_string())
                };
                let r = guarded(|| call(&mut slot.eng.owned_mut().unwrap().condition));
                if valid {
                    match which {
                        Which::Dur => slot.model.wdur = w.clone(),
                        Which::Par(i) => slot.model.wpar[*i] = w.clone(),
                        Which::Gv(i) => slot.model.wgv[*i] = w.clone(),
                    }
                    if let Some(t) = slot.twin.as_mut() {
                        let _ = guarded(|| call(&mut t.condition));
                    }
                }
                let kind = if valid {
                    "valid"
                } else if w.len() != n {
                    if sum == 1.0 { "wrong_length_good_sum" } else { "wrong_length" }
                } else if w.iter().any(|x| x.is_nan()) {
                    "nan"
                } else if w.iter().any(|x| x.is_infinite()) {
                    "inf"
                } else {
                    "bad_sum"
                };
                self.stats.probe(&format!("setw:{}", kind));
                if let Which::Par(i) | Which::Gv(i) = which {
                    if *i >= 3 {
                        self.stats.probe("weights_on_stream_index_3_or_later");
                    }
                }
                self.nontrivial = true;
                self.note(crate::rng::hash_bytes(top.to_text().as_bytes()));
                if self.prop == Prop::C19 {
                    match (&r, valid) {
                        (Ok(Ok(())), true) | (Ok(Err(_)), false) | (Err(_), false) => {}
                        (Ok(Err(e)), true) => return Err(self.viol("C19.accept-reject", format!("valid-rejected:{}", which_class(which)), format!("weights {:?} (count {} = voices, sum exactly 1) were rejected: {}", w, n, e))),
                        (Ok(Ok(())), false) => return Err(self.viol("C19.accept-reject", format!("invalid-accepted:{}:{}", kind, which_class(which)), format!("weights {:?} ({}; {} voices, sum {:e}) were accepted", w, kind, n, sum))),
                        (Err(p), true) => return Err(self.viol("C19.accept-reject", format!("valid-panicked:{}", which_class(which)), format!("weights {:?} panicked: {}", w, p.msg))),
                    }
                    if !valid {
                        self.stats.probe("rejected_update");
                    }
                    self.check_model(*e, "C19.weights-model")?;
                } else if self.prop == Prop::C03 {
                    self.check_model(*e, "C03.settings-model")?;
                }
                Ok(())
            }
            Op::VsNew { voices, mutate, mutate2 } => {
                let mut arcs: Vec<Arc<Voice>> = Vec::new();
                for v in voices {
                    arcs.push(self.env.voice(v).map_err(|e| Stop::Harness(HarnessError(e)))?.0);
                }
                let mut expect = if voices.is_empty() { "empty" } else { "ok" };
                let mut applied = 0;
                for mm in [mutate, mutate2] {
                    if let Some((pos, field, variant)) = mm {
                        if *pos < arcs.len() && arcs.len() >= 2 {
                            if *variant >= 5 && lossy_trap(&mut arcs, *pos, *field, *variant) {
                                applied += 1;
                                self.stats.probe("vsnew_lossy_comparison_trap");
                                continue;
                            }
                            let mut v: Voice = (*arcs[*pos]).clone();
                            if mutate_meta(&mut v, *field, *variant) {
                                arcs[*pos] = Arc::new(v);
                                applied += 1;
                            }
                        }
                    }
                }
                if applied > 0 {
                    // the specification: any voice whose global or per-stream metadata differ from the
                    // first voice's makes the list uncombinable (two mutations may cancel each other)
                    let first = &arcs[0];
                    let differs = arcs[1..].iter().any(|v| {
                        v.metadata != first.metadata || v.stream_models.len() != first.stream_models.len() || v.stream_models.iter().zip(first.stream_models.iter()).any(|(a, b)| a.metadata != b.metadata)
                    });
                    if differs {
                        expect = "metadata";
                        if applied == 2 {
                            self.stats.probe("vsnew_two_fields_mutated");
                        }
                    }
                }
                self.stats.api_calls += 1;
                self.nontrivial = true;
                let r = guarded(|| VoiceSet::new(arcs).map(|vs| vs.len()));
                self.stats.probe(&format!("vsnew:{}", expect));
                if let Some((pos, f, variant)) = mutate {
                    if expect == "metadata" {
                        self.stats.probe(&format!("vsnew_variant:{}", variant % 5));
                        self.stats.probe(if *pos == 0 { "vsnew_mutated_first_voice" } else if *pos == 1 { "vsnew_mutated_second_voice" } else { "vsnew_mutated_third_or_later_voice" });
                        self.stats.probe(&format!("vsnew_field:{}", f.to_text().split(':').next().unwrap()));
                    }
                }
                self.note(crate::rng::hash_bytes(top.to_text().as_bytes()));
                if self.prop != Prop::C19 {
                    return Ok(());
                }
                use jbonsai::model::ModelError;
                let got = match &r {
                    Ok(Ok(_)) => "ok",
                    Ok(Err(ModelError::EmptyVoice)) => "empty",
                    Ok(Err(ModelError::MetadataError)) => "metadata",
                    Ok(Err(_)) => "other-error",
                    Err(_) => "panic",
                };
                let fieldname = mutate.map(|(_, f, _)| f.to_text().split(':').next().unwrap().to_string()).unwrap_or_default();
                let good = match expect {
                    "ok" => got == "ok",
                    // an empty list / a metadata difference must be rejected *with an error*
                    "empty" => got == "empty" || got == "metadata" || got == "other-error",
                    _ => got == "metadata" || got == "empty" || got == "other-error",
                };
                if !good {
                    return Err(self.viol(
                        "C19.voiceset-validation",
                        format!("expected-{}-got-{}:{}", expect, got, fieldname),
                        format!("VoiceSet::new over {} voices (mutated: {:?}) returned {}, expected {}", voices.len(), mutate.map(|(p, f, v)| format!("{}@{}/variant{}", f.to_text(), p, v)), got, expect),
                    ));
                }
                Ok(())
            }
            Op::Synth { e, utt, form } => self.op_synth(task, *e, utt, *form, None),
            Op::SynthBad { e, utt, bad_at, bad_kind } => self.op_synth(task, *e, utt, Form::Slice, Some((*bad_at, *bad_kind))),
            Op::NewGen { e, g, utt } => self.op_newgen(task, *e, *g, utt),
            Op::Step { g, extra } => self.op_step(task, *g, *extra),
            Op::Query { g } => {
                let Some(gs) = self.gens.get(*g).and_then(|x| x.as_ref()) else {
                    self.stats.noop_ops += 1;
                    return Ok(());
                };
                self.stats.api_calls += 1;
                let got = gs.gen.synthesized_frames();
                let want = gs.cursor;
                let judged = gs.reference.is_some();
                self.stats.comparisons += 1;
                self.note(0x51);
                self.digest = crate::rng::mix(&[self.digest, got as u64]);
                if self.prop == Prop::C02 && judged && got != want {
                    return Err(self.viol("C02.frames-produced", "query-mismatch", format!("synthesized_frames() = {}, but {} frames were produced so far", got, want)));
                }
                Ok(())
            }
            Op::Finish { g } => self.op_finish(task, *g),
            Op::Drain { g, max } => {
                for _ in 0..*max {
                    if self.gens.get(*g).and_then(|x| x.as_ref()).is_none() {
                        break;
                    }
                    let extra = if self.prop == Prop::C02 {
                        // cycle fperiod, fperiod+1, 2*fperiod, 3*fperiod-sized buffers
                        let fp = self.gens[*g].as_ref().map(|x| x.fp).unwrap_or(1);
                        match self.gens[*g].as_ref().map(|x| x.steps % 7).unwrap_or(0) {
                            2 => 1,
                            4 => fp,
                            6 => 2 * fp,
                            _ => 0,
                        }
                    } else {
                        0
                    };
                    self.op_step(task, *g, extra)?;
                    if self.prop != Prop::C03 {
                        // other properties keep exhausted generators alive; stop once exhausted
                        if let Some(gs) = self.gens[*g].as_ref() {
                            if gs.cursor >= gs.frames {
                                break;
                            }
                        }
                    }
                    crate::sched::yield_point(0);
                }
                Ok(())
            }
            Op::GiveGen { g, b } => {
                let parcel = match self.gens.get_mut(*g).and_then(|x| x.take()) {
                    Some(gs) if gs.reference.is_none() => Some(Box::new(Parcel { gen: gs.gen, fp: gs.fp, frames: gs.frames, cursor: gs.cursor, collected: gs.collected, key: gs.key, bufsizes_seen: gs.bufsizes_seen, steps: gs.steps, heavy: gs.heavy, c03_extra: gs.c03_extra })),
                    _ => None,
                };
                let mut bx = BOXES.lock().unwrap_or_else(|e| e.into_inner());
                if let Some(x) = bx.get_mut(*b) {
                    *x = match parcel {
                        Some(p) => {
                            self.stats.probe("generator_given_to_another_thread");
                            BoxState::Given(p)
                        }
                        None => BoxState::Closed,
                    };
                }
                drop(bx);
                crate::sched::notify_event();
                Ok(())
            }
            Op::TakeGen { g, b } => {
                if *g >= MAX_GENS {
                    self.stats.noop_ops += 1;
                    return Ok(());
                }
                let mut spins = 0u64;
                loop {
                    let got = {
                        let mut bx = BOXES.lock().unwrap_or_else(|e| e.into_inner());
                        match bx.get_mut(*b) {
                            Some(x) => match std::mem::replace(x, BoxState::Closed) {
                                BoxState::Given(p) => Some(Some(p)),
                                BoxState::Closed => Some(None),
                                BoxState::Pending => {
                                    *x = BoxState::Pending;
                                    None
                                }
                            },
                            None => Some(None),
                        }
                    };
                    match got {
                        Some(Some(p)) => {
                            let p = *p;
                            self.gens[*g] = Some(GenSlot { gen: p.gen, fp: p.fp, frames: p.frames, cursor: p.cursor, reference: None, collected: p.collected, key: p.key, last_task: task, bufsizes_seen: p.bufsizes_seen, steps: p.steps, heavy: p.heavy, c03_extra: p.c03_extra });
                            self.stats.probe("generator_taken_over_from_another_thread");
                            if p.cursor > 0 {
                                self.stats.probe("generator_taken_over_mid_stream");
                            }
                            return Ok(());
                        }
                        Some(None) => {
                            self.stats.noop_ops += 1;
                            return Ok(());
                        }
                        None => {
                            // not there yet: outside the threaded pass nobody will bring it
                            if !crate::sched::in_simulated_thread() {
                                self.stats.noop_ops += 1;
                                return Ok(());
                            }
                            spins += 1;
                            if spins > 1_000_000 {
                                return Err(Stop::Harness(HarnessError("TakeGen: the giver never arrived".into())));
                            }
                            crate::sched::wait_event();
                        }
                    }
                }
            }
            Op::Reset => {
                for g in self.gens.iter_mut() {
                    *g = None;
                }
                for e in self.engines.iter_mut() {
                    *e = None;
                }
                self.keys.clear();
                self.refs.clear();
                Ok(())
            }
            Op::DropGen { g } => {
                if let Some(slot) = self.gens.get_mut(*g) {
                    if let Some(gs) = slot.take() {
                        if gs.cursor > 0 && gs.cursor < gs.frames {
                            self.stats.probe("generator_dropped_midstream");
                        }
                        return Ok(());
                    }
                }
                self.stats.noop_ops += 1;
                Ok(())
            }
        }
    }

    fn op_synth(&mut self, task: u8, e: usize, utt: &Utt, form: Form, bad: Option<(usize, u8)>) -> Result<(), Stop> {
        if self.engines.get(e).and_then(|x| x.as_ref()).is_none() {
            self.stats.noop_ops += 1;
            return Ok(());
        }
        let slot = self.engines[e].as_ref().unwrap();
        let ns = slot.model.nstream();
        let before = snapshot(&slot.eng.condition, ns);
        let key = if bad.is_none() { Some(self.synth_key(slot, utt, form)) } else { None };
        self.stats.api_calls += 1;
        let r = Self::do_synth(self.env, &slot.eng, utt, form, bad).map_err(Stop::Harness)?;
        let after = snapshot(&slot.eng.condition, ns);
        self.note(crate::rng::hash_bytes(utt.to_text().as_bytes()) ^ 0x30 ^ (e as u64) << 8);
        if let Err(p) = &r {
            if p.msg.contains(FUEL_MSG) {
                return Err(self.viol("liveness.fuel", "synthesize-no-progress", "synthesize exhausted its deterministic step budget"));
            }
        }
        if self.prop == Prop::C03 {
            self.stats.comparisons += 1;
            if before != after {
                return Err(self.viol("C03.call-leaves-settings", if bad.is_some() { "failed-synthesize-changed-settings" } else { "synthesize-changed-settings" }, "a &self synthesis call changed the engine's observable settings"));
            }
            if bad.is_some() {
                self.stats.probe(match &r {
                    Ok(Err(_)) => "failed_call:err",
                    Ok(Ok(_)) => "failed_call:ok",
                    Err(_) => "failed_call:panic",
                });
                return Ok(());
            }
            if let Ok(Ok(w)) = &r {
                let slot = self.engines[e].as_ref().unwrap();
                let rk = RefKey { kind: 0, hash: hash_f64s(w), len: w.len(), at_op: self.op_index, canonical: Self::canonical_ops(slot, utt, form) };
                // keep the two most recent candidates with distinct canonical histories
                if self.refs.last().map(|l| l.canonical != rk.canonical).unwrap_or(true) {
                    self.refs.push(rk);
                    if self.refs.len() > 2 {
                        self.refs.remove(0);
                    }
                }
            }
            let out = match r {
                Ok(Ok(w)) => Outcome::Wave { hash: hash_f64s(&w), wave: Rc::new(w) },
                Ok(Err(_)) => Outcome::Err,
                Err(p) => {
                    self.stats.vacuous += 1;
                    self.stats.probe(&format!("synthesize_panicked_at:{}", p.file.rsplit('/').next().unwrap_or("?")));
                    Outcome::Panic { class: p.class() }
                }
            };
            return self.record_outcome(key.unwrap(), out, task, e);
        }
        if self.prop == Prop::C19 && bad.is_none() {
            // "previous weights stay in force for subsequent synthesis": compare with the twin engine
            let slot = self.engines[e].as_ref().unwrap();
            let Some(twin) = slot.twin.as_ref() else { return Ok(()) };
            self.stats.api_calls += 1;
            let r2 = Self::do_synth(self.env, twin, utt, form, None).map_err(Stop::Harness)?;
            self.stats.comparisons += 1;
            self.nontrivial = true;
            match (r, r2) {
                (Ok(Ok(a)), Ok(Ok(b))) => {
                    self.stats.samples_compared += a.len() as u64;
                    self.stats.probe("synth_vs_twin");
                    if let Some(d) = first_diff(&a, &b) {
                        return Err(self.viol(
                            "C19.rejected-update-leaves-weights",
                            "waveform-differs-from-accepted-only-history",
                            format!("synthesis after the full history differs from synthesis after only its accepted updates (lengths {} / {}, first differing sample {})", a.len(), b.len(), d),
                        ));
                    }
                }
                (Err(_), Err(_)) | (Ok(Err(_)), Ok(Err(_))) => {
                    self.stats.vacuous += 1;
                }
                (a, b) => {
                    let n = |x: &Result<Result<Vec<f64>, String>, PanicNote>| match x {
                        Ok(Ok(_)) => "waveform",
                        Ok(Err(_)) => "error",
                        Err(_) => "panic",
                    };
                    return Err(self.viol(
                        "C19.rejected-update-leaves-weights",
                        format!("outcome-differs:{}-vs-{}", n(&a), n(&b)),
                        "synthesis after the full history and after only its accepted updates ended differently",
                    ));
                }
            }
        }
        Ok(())
    }

    /// C02's reference: one-shot synthesis on engine `e`. Ok(None) = not judged (error / vacuous).
    fn c02_reference(&mut self, e: usize, utt: &Utt) -> Result<Option<Vec<f64>>, Stop> {
        self.stats.api_calls += 1;
        let slot = self.engines[e].as_ref().unwrap();
        let rr = Self::do_synth(self.env, &slot.eng, utt, Form::Slice, None).map_err(Stop::Harness)?;
        match rr {
            Ok(Ok(w)) => Ok(Some(w)),
            Ok(Err(_)) => Ok(None),
            Err(p) => {
                if p.msg.contains(FUEL_MSG) {
                    return Err(self.viol("liveness.fuel", "synthesize-no-progress", "synthesize exhausted its deterministic step budget"));
                }
                self.stats.vacuous += 1;
                self.stats.probe("vacuous_reference_panicked");
                Ok(None)
            }
        }
    }

    fn op_newgen(&mut self, task: u8, e: usize, g: usize, utt: &Utt) -> Result<(), Stop> {
        if g >= MAX_GENS || self.engines.get(e).and_then(|x| x.as_ref()).is_none() {
            self.stats.noop_ops += 1;
            return Ok(());
        }
        let slot = self.engines[e].as_ref().unwrap();
        let ns = slot.model.nstream();
        let before = snapshot(&slot.eng.condition, ns);
        let key = self.synth_key(slot, utt, Form::Slice);
        // C02: where the one-shot reference is taken relative to Engine::generator - a function of the
        // op alone, so it survives shrinking. 0,1: right after; 2: right before; 3: after, with a
        // one-shot synthesis of a *different* utterance on the same engine in between (a one-entry
        // "last utterance" cache is evicted between the two calls that are compared)
        let ref_mode = if self.prop == Prop::C02 { crate::rng::hash_bytes(format!("{}|{}|{}", utt.to_text(), e, g).as_bytes()) % 4 } else { 0 };
        let mut early_ref: Option<Option<Vec<f64>>> = None;
        if ref_mode == 2 {
            early_ref = Some(self.c02_reference(e, utt)?);
            self.stats.probe("reference_taken_before_generator");
        }
        let slot = self.engines[e].as_ref().unwrap();
        self.stats.api_calls += 1;
        let gr = Self::do_generator(self.env, &slot.eng, utt).map_err(Stop::Harness)?;
        let after = snapshot(&slot.eng.condition, ns);
        let fp = slot.eng.condition.get_fperiod();
        let heavy = slot.heavy;
        self.note(crate::rng::hash_bytes(utt.to_text().as_bytes()) ^ 0x40 ^ (g as u64) << 8);
        if self.prop == Prop::C03 && before != after {
            return Err(self.viol("C03.call-leaves-settings", "generator-changed-settings", "Engine::generator changed the engine's observable settings"));
        }
        let gen = match gr {
            Ok(Ok(gen)) => gen,
            Ok(Err(_)) => return Ok(()),
            Err(p) => {
                if p.msg.contains(FUEL_MSG) {
                    return Err(self.viol("liveness.fuel", "generator-no-progress", "Engine::generator exhausted its deterministic step budget"));
                }
                self.stats.vacuous += 1;
                self.stats.probe("vacuous_generator_panicked");
                return Ok(());
            }
        };
        let mut reference = None;
        let mut frames = 0;
        if self.prop == Prop::C02 {
            // reference: one-shot synthesis on the same engine value, inside the same atomic op
            if ref_mode == 3 {
                let other = Utt { lines: if utt.lines.len() >= 2 { utt.lines[..1].to_vec() } else { vec![utt.lines.first().copied().unwrap_or(0), 7] }, timed: 0 };
                let _ = self.c02_reference(e, &other)?;
                self.stats.probe("other_utterance_between_generator_and_reference");
            }
            let got = match early_ref {
                Some(r) => r,
                None => self.c02_reference(e, utt)?,
            };
            match got {
                Some(w) => {
                    frames = if fp > 0 { w.len() / fp } else { 0 };
                    reference = Some(Rc::new(w));
                }
                None => return Ok(()),
            }
            if frames == 0 {
                self.stats.probe("zero_frame_generator");
            } else if frames == 1 {
                self.stats.probe("one_frame_generator");
            }
            if frames >= 256 {
                self.stats.probe("generator_256_frames_or_more");
            }
            if frames >= 1000 {
                self.stats.probe("generator_1000_frames_or_more");
            }
            if frames >= 65536 {
                self.stats.probe("generator_65536_frames_or_more");
            }
            if frames >= 256 && frames % 256 == 0 {
                self.stats.probe("generator_frames_exact_multiple_of_256");
            }
            if frames >= 512 && frames % 512 == 0 {
                self.stats.probe("generator_frames_exact_multiple_of_512");
            }
            {
                let c = &self.engines[e].as_ref().unwrap().eng.condition;
                if c.get_phoneme_alignment_flag() {
                    self.stats.probe("generator_with_alignment");
                }
                if c.get_beta() > 0.0 {
                    self.stats.probe("generator_with_postfilter");
                }
                if self.engines[e].as_ref().unwrap().voices.iter().any(|v| matches!(v, VoiceRef::Gen(s) if s.meta.stage > 0)) {
                    self.stats.probe("generator_on_lsp_voice");
                }
            }
            if gen.fperiod() != fp {
                return Err(self.viol("C02.chunk-equals-oneshot", "fperiod-mismatch", format!("generator.fperiod() = {} but the engine's frame period is {}", gen.fperiod(), fp)));
            }
        }
        if self.gens[g].is_some() {
            self.stats.probe("generator_replaced");
        }
        self.gens[g] = Some(GenSlot { gen, fp, frames, cursor: 0, reference, collected: Vec::new(), key, last_task: task, bufsizes_seen: 0, steps: 0, heavy, c03_extra: match (self.op_index + g) % 4 { 0 => 0, 1 => 1, 2 => fp, _ => 2 * fp } });
        Ok(())
    }

    fn op_step(&mut self, task: u8, g: usize, extra: usize) -> Result<(), Stop> {
        let prop = self.prop;
        let opi = self.op_index;
        let Some(gs) = self.gens.get_mut(g).and_then(|x| x.as_mut()) else {
            self.stats.noop_ops += 1;
            return Ok(());
        };
        if gs.last_task != task {
            gs.last_task = task;
            self.stats.probe("generator_moved_across_tasks");
        }
        let fp = gs.fp;
        let extra = if prop == Prop::C03 { gs.c03_extra } else { extra.min(2 * fp) };
        let len = fp + extra;
        let mut buf = vec![f64::from_bits(POISON); len];
        self.stats.api_calls += 1;
        let gen = &mut gs.gen;
        let r = with_fuel(4_000_000 + 64 * fp as u64 + 65_536, || guarded(|| gen.generate_step(&mut buf)));
        gs.steps += 1;
        self.digest = crate::rng::mix(&[self.digest, hash_f64s(&buf), match &r { Ok(n) => *n as u64, Err(_) => u64::MAX }]);
        gs.bufsizes_seen |= if extra == 0 { 1 } else if extra == 2 * fp { 4 } else { 2 };
        self.trace_hash = crate::rng::mix(&[self.trace_hash, 0x50 + (extra.min(2) as u64)]);
        let mk = |oracle: &'static str, class: String, detail: String| Stop::Violation(Violation { oracle, class, detail, op_index: opi });
        match prop {
            Prop::C02 => {
                let Some(reference) = gs.reference.clone() else { return Ok(()) };
                let n = match r {
                    Ok(n) => n,
                    Err(p) => {
                        if p.msg.contains(FUEL_MSG) {
                            return Err(mk("liveness.fuel", "step-no-progress".into(), "generate_step exhausted its deterministic step budget".into()));
                        }
                        return Err(mk("C02.chunk-equals-oneshot", "step-panicked".into(), format!("generate_step panicked at frame {} of {} (buffer {} >= fperiod {}): {} @{}", gs.cursor, gs.frames, len, fp, p.msg, p.file)));
                    }
                };
                self.stats.comparisons += 1;
                self.nontrivial = true;
                if gs.cursor < gs.frames {
                    if n != fp {
                        return Err(mk("C02.chunk-equals-oneshot", "step-return-value".into(), format!("generate_step returned {} at frame {} of {} (expected fperiod = {})", n, gs.cursor, gs.frames, fp)));
                    }
                    let want = &reference[gs.cursor * fp..(gs.cursor + 1) * fp];
                    self.stats.samples_compared += fp as u64;
                    if let Some(d) = first_diff(&buf[..fp], want) {
                        return Err(mk(
                            "C02.chunk-equals-oneshot",
                            "chunk-differs".into(),
                            format!("frame {} of {}: sample {} of the chunk is {:e}, one-shot synthesis has {:e}", gs.cursor, gs.frames, d, buf[d], want[d]),
                        ));
                    }
                    gs.collected.extend_from_slice(&buf[..fp]);
                    gs.cursor += 1;
                    if gs.cursor == gs.frames {
                        self.stats.probe("generator_exhausted_by_steps");
                    }
                    if gs.bufsizes_seen.count_ones() >= 2 {
                        self.stats.probe("mixed_buffer_sizes");
                    }
                } else {
                    self.stats.probe("step_after_exhaustion");
                    if n != 0 {
                        return Err(mk("C02.exhausted-returns-zero", "nonzero-after-exhaustion".into(), format!("generate_step returned {} on an exhausted generator ({} frames)", n, gs.frames)));
                    }
                    if let Some(d) = buf.iter().position(|x| x.to_bits() != POISON) {
                        return Err(mk("C02.exhausted-returns-zero", "wrote-after-exhaustion".into(), format!("generate_step wrote sample {} of the buffer on an exhausted generator", d)));
                    }
                }
                Ok(())
            }
            Prop::C03 => {
                match r {
                    Ok(n) if n == fp && fp > 0 => {
                        gs.collected.extend_from_slice(&buf[..fp]);
                        gs.cursor += 1;
                        Ok(())
                    }
                    Ok(_) => {
                        // exhausted: register the concatenation under the generator key
                        let gs = self.gens[g].take().unwrap();
                        let w = gs.collected;
                        self.stats.probe("generator_waveform_registered");
                        self.record_outcome(format!("gen|{}", gs.key), Outcome::Wave { hash: hash_f64s(&w), wave: Rc::new(w) }, task, 31)
                    }
                    Err(p) => {
                        if p.msg.contains(FUEL_MSG) {
                            return Err(mk("liveness.fuel", "step-no-progress".into(), "generate_step exhausted its deterministic step budget".into()));
                        }
                        let gs = self.gens[g].take().unwrap();
                        self.stats.vacuous += 1;
                        self.record_outcome(format!("gen|{}", gs.key), Outcome::Panic { class: p.class() }, task, 31)
                    }
                }
            }
            _ => Ok(()),
        }
    }

    fn op_finish(&mut self, task: u8, g: usize) -> Result<(), Stop> {
        let prop = self.prop;
        let opi = self.op_index;
        let Some(gs) = self.gens.get_mut(g).and_then(|x| x.take()) else {
            self.stats.noop_ops += 1;
            return Ok(());
        };
        if gs.last_task != task {
            self.stats.probe("generator_moved_across_tasks");
        }
        if prop != Prop::C02 {
            return Ok(()); // dropped
        }
        let Some(reference) = gs.reference.clone() else { return Ok(()) };
        let fp = gs.fp;
        let (cursor, frames) = (gs.cursor, gs.frames);
        self.stats.api_calls += 1;
        let gen = gs.gen;
        let remaining = (frames - cursor) as u64 * fp as u64;
        // per remaining frame: fperiod samples plus up to a few thousand hook sites of the postfilter (c2ir / freqt)
        let r = with_fuel(4_000_000 + 64 * remaining + 65_536 * (frames - cursor) as u64, || guarded(move || gen.generate_all()));
        self.trace_hash = crate::rng::mix(&[self.trace_hash, 0x60]);
        let mk = |oracle: &'static str, class: String, detail: String| Stop::Violation(Violation { oracle, class, detail, op_index: opi });
        if cursor == 0 {
            self.stats.probe("finish_fresh");
        } else if cursor < frames {
            self.stats.probe("finish_after_partial");
            if cursor >= 65536 {
                self.stats.probe("finish_after_65536_or_more_steps");
            } else if cursor >= 8192 {
                self.stats.probe("finish_after_8192_or_more_steps");
            } else if cursor >= 4096 {
                self.stats.probe("finish_after_4096_or_more_steps");
            }
        } else {
            self.stats.probe("finish_after_exhaustion");
        }
        self.stats.comparisons += 1;
        self.nontrivial = true;
        self.digest = crate::rng::mix(&[self.digest, match &r { Ok(v) => hash_f64s(v), Err(_) => u64::MAX }]);
        let out = match r {
            Ok(v) => v,
            Err(p) => {
                if p.msg.contains(FUEL_MSG) {
                    return Err(mk("liveness.fuel", "finish-no-progress".into(), "generate_all exhausted its deterministic step budget".into()));
                }
                let state = if cursor == 0 { "fresh" } else if cursor < frames { "partially-consumed" } else { "exhausted" };
                return Err(mk(
                    "C02.finish-returns-suffix",
                    format!("finish-panicked:{}", state),
                    format!("generate_all panicked on a {} generator ({} of {} frames produced): {} @{}", state, cursor, frames, p.msg, p.file),
                ));
            }
        };
        let want = &reference[cursor * fp..];
        self.stats.samples_compared += want.len() as u64;
        if let Some(d) = first_diff(&out, want) {
            return Err(mk(
                "C02.finish-returns-suffix",
                if out.len() != want.len() { "suffix-length".into() } else { "suffix-differs".into() },
                format!("generate_all after {} of {} frames returned {} samples, expected the {}-sample suffix; first difference at {}", cursor, frames, out.len(), want.len(), d),
            ));
        }
        Ok(())
    }

    /// End-of-run checks.
    pub fn finish(&mut self) -> Result<(), Stop> {
        if self.stats.api_calls >= 1000 {
            self.stats.probe("process_with_1000_or_more_api_calls");
        }
        if self.keys.len() >= 256 {
            self.stats.probe("process_with_256_or_more_distinct_waveform_keys");
        }
        if self.prop == Prop::C02 {
            for g in 0..self.gens.len() {
                if let Some(gs) = self.gens[g].as_ref() {
                    if let Some(reference) = gs.reference.as_ref() {
                        self.stats.comparisons += 1;
                        if first_diff(&gs.collected, &reference[..gs.cursor * gs.fp]).is_some() {
                            return Err(self.viol("C02.chunk-equals-oneshot", "concatenation-differs", "concatenated chunks differ from the one-shot prefix"));
                        }
                    }
                }
            }
        }
        Ok(())
    }
}

pub enum LabelInput {
    Array(Vec<String>),
    VecString(Vec<String>),
    Labels(Vec<jlabel::Label>),
}

fn which_class(w: &Which) -> &'static str {
    match w {
        Which::Dur => "duration",
        Which::Par(_) => "parameter",
        Which::Gv(_) => "gv",
    }
}

/// Change exactly one metadata field of a voice. `variant`: 0 grow / append / flip, 1 shrink / remove,
/// 2 alter in place. Returns false if the field does not exist or the variant cannot change it.
/// Differences a lossy comparison would miss (numeric fields, variants 5..=9): all voices of the list
/// are first given the same base value(s), then voice `pos` gets a value that is different but equal
/// after a ratio is rounded (frames per second), after a conversion to f32, or after truncation to
/// 32 / 16 bits. Only the metadata is touched; the list is only ever handed to `VoiceSet::new`.
pub fn lossy_trap(arcs: &mut [Arc<Voice>], pos: usize, f: MetaField, variant: u8) -> bool {
    fn field<'a>(v: &'a mut Voice, f: MetaField) -> Option<&'a mut usize> {
        match f {
            MetaField::SamplingRate => Some(&mut v.metadata.sampling_frequency),
            MetaField::FramePeriod => Some(&mut v.metadata.frame_period),
            MetaField::NumStates => Some(&mut v.metadata.num_states),
            MetaField::VectorLength(i) => v.stream_models.get_mut(i).map(|s| &mut s.metadata.vector_length),
            MetaField::NumWindows(i) => v.stream_models.get_mut(i).map(|s| &mut s.metadata.num_windows),
            _ => None,
        }
    }
    let mut vs: Vec<Voice> = arcs.iter().map(|a| (**a).clone()).collect();
    if field(&mut vs[0], f).is_none() {
        return false;
    }
    let ratio = matches!(f, MetaField::SamplingRate | MetaField::FramePeriod);
    // (rate, period) pairs whose neighbours give the same rounded frame rate
    let (base_rate, base_fp, new_rate, new_fp) = match variant {
        5 => (44100usize, 220usize, 44101usize, 221usize),
        6 => (96000, 480, 96001, 479),
        _ => (0, 0, 0, 0),
    };
    match variant {
        5 | 6 if ratio => {
            for v in vs.iter_mut() {
                v.metadata.sampling_frequency = base_rate;
                v.metadata.frame_period = base_fp;
            }
            if let MetaField::SamplingRate = f {
                vs[pos].metadata.sampling_frequency = new_rate;
            } else {
                vs[pos].metadata.frame_period = new_fp;
            }
        }
        5 | 6 => return false,
        7 => {
            // equal as f32
            for v in vs.iter_mut() {
                *field(v, f).unwrap() = 16_777_216;
            }
            *field(&mut vs[pos], f).unwrap() = 16_777_217;
        }
        8 => {
            let x = field(&mut vs[pos], f).unwrap();
            *x = x.wrapping_add(1usize << 32);
        }
        _ => {
            let x = field(&mut vs[pos], f).unwrap();
            *x = x.wrapping_add(1usize << 16);
        }
    }
    for (a, v) in arcs.iter_mut().zip(vs) {
        *a = Arc::new(v);
    }
    true
}

pub fn mutate_meta(v: &mut Voice, f: MetaField, variant: u8) -> bool {
    fn num(x: &mut usize, variant: u8) -> bool {
        match variant % 3 {
            0 => *x += 1,
            1 => {
                if *x == 0 {
                    return false;
                }
                *x -= 1
            }
            _ => *x = x.wrapping_mul(2).wrapping_add(3),
        }
        true
    }
    fn opt(o: &mut Vec<String>, variant: u8) -> bool {
        match variant % 5 {
            0 => o.push("X=1".to_string()),
            1 => {
                if o.pop().is_none() {
                    return false;
                }
            }
            2 => match o.first_mut() {
                Some(s) => s.push('9'),
                None => return false,
            },
            // differences a lossy comparison would miss: trailing blank, order
            3 => match o.last_mut() {
                Some(s) => s.push(' '),
                None => return false,
            },
            _ => {
                if o.len() < 2 || o[0] == o[o.len() - 1] {
                    return false;
                }
                o.reverse();
            }
        }
        true
    }
    match f {
        MetaField::SamplingRate => num(&mut v.metadata.sampling_frequency, variant),
        MetaField::FramePeriod => num(&mut v.metadata.frame_period, variant),
        MetaField::NumStates => num(&mut v.metadata.num_states, variant),
        MetaField::NumStreams => num(&mut v.metadata.num_streams, variant),
        MetaField::StreamType => match variant % 5 {
            3 => match v.metadata.stream_type.first_mut() {
                Some(s) => {
                    *s = s.to_lowercase();
                    true
                }
                None => false,
            },
            4 => match v.metadata.stream_type.last_mut() {
                Some(s) => {
                    s.push(' ');
                    true
                }
                None => false,
            },
            0 => match v.metadata.stream_type.last_mut() {
                Some(s) => {
                    s.push('X');
                    true
                }
                None => false,
            },
            1 => v.metadata.stream_type.pop().is_some(),
            _ => {
                if v.metadata.stream_type.len() >= 2 {
                    v.metadata.stream_type.swap(0, 1);
                    true
                } else {
                    false
                }
            }
        },
        MetaField::VectorLength(i) => match v.stream_models.get_mut(i) {
            Some(s) => num(&mut s.metadata.vector_length, variant),
            None => false,
        },
        MetaField::NumWindows(i) => match v.stream_models.get_mut(i) {
            Some(s) => num(&mut s.metadata.num_windows, variant),
            None => false,
        },
        MetaField::IsMsd(i) => match v.stream_models.get_mut(i) {
            Some(s) => {
                s.metadata.is_msd = !s.metadata.is_msd;
                true
            }
            None => false,
        },
        MetaField::UseGv(i) => match v.stream_models.get_mut(i) {
            Some(s) => {
                s.metadata.use_gv = !s.metadata.use_gv;
                true
            }
            None => false,
        },
        MetaField::Option(i) => match v.stream_models.get_mut(i) {
            Some(s) => opt(&mut s.metadata.option, variant),
            None => false,
        },
    }
}
