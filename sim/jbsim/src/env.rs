//! Per-thread environment: corpus, question pool, voice cache, panic capture, fuel.

use std::cell::{Cell, RefCell};
use std::collections::BTreeMap;
use std::path::PathBuf;
use std::sync::Arc;

use jbonsai::model::Voice;

use crate::ops::VoiceRef;
use crate::rng::Rng;
use crate::voicegen::{self, QuestionPool, SectionMap, BUNDLED};

pub const CORPUS: &str = "/repo/examples/genji/genji.lab";

thread_local! {
    static LAST_PANIC: RefCell<Option<PanicNote>> = const { RefCell::new(None) };
    static GUARD_DEPTH: Cell<u32> = const { Cell::new(0) };
    pub static FUEL: Cell<u64> = const { Cell::new(u64::MAX) };
    pub static FUEL_ON: Cell<bool> = const { Cell::new(false) };
    pub static SITE_COUNTS: RefCell<[u64; 32]> = const { RefCell::new([0; 32]) };
}

#[derive(Clone, Debug)]
pub struct PanicNote {
    pub file: String,
    pub line: u32,
    pub msg: String,
}

impl PanicNote {
    /// Site class: file + message with digits stripped (line numbers move under unrelated edits).
    pub fn class(&self) -> String {
        // digits stripped (indices move), cut at a quoted excerpt of the input, ASCII only
        let m: String = self.msg.split('`').next().unwrap_or("").chars().filter(|c| !c.is_ascii_digit() && (c.is_ascii_graphic() || *c == ' ')).collect();
        let m = if m.len() > 100 { m[..100].to_string() } else { m };
        // machine-independent path: strip the cargo registry / rustc prefixes
        let mut f = self.file.as_str();
        if let Some(i) = f.find("/registry/src/") {
            let rest = &f[i + "/registry/src/".len()..];
            f = rest.split_once('/').map(|x| x.1).unwrap_or(rest);
        } else if let Some(i) = f.find("/library/") {
            if f.starts_with("/rustc/") {
                f = &f[i + 1..];
            }
        }
        format!("{}|{}", f, m)
    }
}

pub const FUEL_MSG: &str = "JBSIM_FUEL_EXHAUSTED";

pub fn install_panic_hook() {
    std::panic::set_hook(Box::new(|info| {
        let (file, line) = info.location().map(|l| (l.file().to_string(), l.line())).unwrap_or(("?".into(), 0));
        let msg = if let Some(s) = info.payload().downcast_ref::<&str>() {
            s.to_string()
        } else if let Some(s) = info.payload().downcast_ref::<String>() {
            s.clone()
        } else {
            "<non-string payload>".to_string()
        };
        if GUARD_DEPTH.with(|d| d.get()) == 0 {
            eprintln!("jbsim: harness panic at {}:{}: {}", file, line, msg);
        }
        LAST_PANIC.with(|p| *p.borrow_mut() = Some(PanicNote { file, line, msg }));
    }));
}

/// Run `f`, catching a panic; the panic hook has recorded where it came from.
pub fn guarded<T>(f: impl FnOnce() -> T) -> Result<T, PanicNote> {
    LAST_PANIC.with(|p| *p.borrow_mut() = None);
    GUARD_DEPTH.with(|d| d.set(d.get() + 1));
    let r = std::panic::catch_unwind(std::panic::AssertUnwindSafe(f));
    GUARD_DEPTH.with(|d| d.set(d.get() - 1));
    match r {
        Ok(v) => Ok(v),
        Err(_) => Err(LAST_PANIC
            .with(|p| p.borrow_mut().take())
            .unwrap_or(PanicNote { file: "?".into(), line: 0, msg: "?".into() })),
    }
}

/// The hook installed into jbonsai's yield points for single-threaded (L1) simulation:
/// counts sites and burns deterministic fuel.
pub fn l1_hook(site: u32) {
    SITE_COUNTS.with(|c| c.borrow_mut()[(site as usize) & 31] += 1);
    if FUEL_ON.with(|f| f.get()) {
        let left = FUEL.with(|f| f.get());
        if left == 0 {
            FUEL_ON.with(|f| f.set(false));
            panic!("{}", FUEL_MSG);
        }
        FUEL.with(|f| f.set(left - 1));
    }
}

pub fn with_fuel<T>(budget: u64, f: impl FnOnce() -> T) -> T {
    FUEL.with(|x| x.set(budget));
    FUEL_ON.with(|x| x.set(true));
    let r = f();
    FUEL_ON.with(|x| x.set(false));
    r
}

pub struct Env {
    pub pool: QuestionPool,
    pub corpus: Vec<String>,
    /// a second directory in which voice files may already exist (simulated threads: the plan's main environment)
    pub shared_dir: Option<PathBuf>,
    pub dir: PathBuf,
    voices: BTreeMap<VoiceRef, (Arc<Voice>, PathBuf, u32)>,
    next_uid: u32,
    bundled_bytes: Option<Vec<u8>>,
    labels: BTreeMap<u32, jlabel::Label>,
}

/// One scratch directory per top-level invocation: the first jbsim process of a check creates
/// `/dev/shm/jbsim-<pid>`, exports it as JBSIM_SCRATCH, and every descendant (spawned or forked)
/// works below it; only the owner removes it (see `claim_scratch_root` / main).
pub fn scratch_root() -> PathBuf {
    match std::env::var_os("JBSIM_SCRATCH") {
        Some(p) => PathBuf::from(p),
        None => PathBuf::from(format!("/dev/shm/jbsim-{}", std::process::id())),
    }
}

/// Returns true if this process owns the scratch root (and must remove it at exit).
pub fn claim_scratch_root() -> bool {
    if std::env::var_os("JBSIM_SCRATCH").is_some() {
        return false;
    }
    let p = format!("/dev/shm/jbsim-{}", std::process::id());
    let _ = std::fs::create_dir_all(&p);
    std::env::set_var("JBSIM_SCRATCH", &p);
    true
}

impl Env {
    pub fn new(tag: &str) -> Result<Env, String> {
        let pool = QuestionPool::from_bundled()?;
        let corpus: Vec<String> = std::fs::read_to_string(CORPUS)
            .map_err(|e| format!("read {}: {}", CORPUS, e))?
            .lines()
            .map(|s| s.to_string())
            .filter(|s| !s.is_empty())
            .collect();
        if corpus.len() < 100 {
            return Err("corpus too small".into());
        }
        let dir = scratch_root().join(format!("{}-{}", tag, std::process::id()));
        std::fs::create_dir_all(&dir).map_err(|e| format!("mkdir {:?}: {}", dir, e))?;
        Ok(Env { pool, corpus, shared_dir: None, dir, voices: BTreeMap::new(), next_uid: 0, bundled_bytes: None, labels: BTreeMap::new() })
    }

    /// Cheap environment for simulated threads: shares the corpus, has no question pool
    /// (such threads never generate voices, they only use engines handed to them).
    pub fn lite(tag: &str, corpus: &std::sync::Arc<Vec<String>>) -> Result<Env, String> {
        let dir = scratch_root().join(format!("{}-{}", tag, std::process::id()));
        std::fs::create_dir_all(&dir).map_err(|e| format!("mkdir {:?}: {}", dir, e))?;
        Ok(Env { pool: QuestionPool { lines: Vec::new() }, corpus: corpus.as_ref().clone(), shared_dir: None, dir, voices: BTreeMap::new(), next_uid: 0, bundled_bytes: None, labels: BTreeMap::new() })
    }

    pub fn voice_bytes(&mut self, v: &VoiceRef) -> Result<Vec<u8>, String> {
        match v {
            VoiceRef::Bundled => self.bundled().map(|b| b.to_vec()),
            VoiceRef::Perturbed(k) => {
                let mut bytes = self.bundled()?.to_vec();
                let map = SectionMap::parse(&bytes).ok_or("bundled: no section map")?;
                let mut r = Rng::new(crate::rng::mix(&[0x7065_7274, *k as u64]));
                for br in &map.bin_ranges {
                    // skip the per-tree pdf counts at the head of the block
                    let mut i = br.start + 32;
                    while i + 4 <= br.end {
                        let x = f32::from_le_bytes([bytes[i], bytes[i + 1], bytes[i + 2], bytes[i + 3]]);
                        let y = x * (1.0 + (r.unit() as f32 - 0.5) * 0.06);
                        if y.is_finite() {
                            bytes[i..i + 4].copy_from_slice(&y.to_le_bytes());
                        }
                        i += 4;
                    }
                }
                Ok(bytes)
            }
            VoiceRef::Gen(spec) => Ok(voicegen::build(spec, &self.pool)),
        }
    }

    fn bundled(&mut self) -> Result<&[u8], String> {
        if self.bundled_bytes.is_none() {
            self.bundled_bytes = Some(std::fs::read(BUNDLED).map_err(|e| format!("read bundled: {}", e))?);
        }
        Ok(self.bundled_bytes.as_ref().unwrap())
    }

    /// Path of the voice file on the simulated disk (written on first use).
    pub fn voice_path(&mut self, v: &VoiceRef) -> Result<PathBuf, String> {
        if let VoiceRef::Bundled = v {
            return Ok(PathBuf::from(BUNDLED));
        }
        if let Some((_, p, _)) = self.voices.get(v) {
            return Ok(p.clone());
        }
        self.voice(v).map(|_| self.voices.get(v).unwrap().1.clone())
    }

    /// Load (through the public loader) and cache a voice. Err = the loader refused or panicked:
    /// for fault-free generated voices that is a harness error.
    pub fn voice(&mut self, v: &VoiceRef) -> Result<(Arc<Voice>, u32), String> {
        if let Some((a, _, uid)) = self.voices.get(v) {
            return Ok((a.clone(), *uid));
        }
        let path = match v {
            VoiceRef::Bundled => PathBuf::from(BUNDLED),
            _ => {
                // deterministic name: a file written earlier (by this process or by the shard parent
                // before it forked) is reused
                let name = format!("v-{:016x}.htsvoice", crate::rng::hash_bytes(v.to_text().as_bytes()));
                let mut p = self.dir.join(&name);
                if !p.exists() {
                    if let Some(q) = self.shared_dir.as_ref().map(|d| d.join(&name)).filter(|q| q.exists()) {
                        p = q;
                    }
                }
                if !p.exists() {
                    if self.pool.lines.is_empty() && matches!(v, VoiceRef::Gen(_)) {
                        return Err(format!("voice file of {} not found and this environment cannot generate voices", v.to_text()));
                    }
                    let bytes = self.voice_bytes(v)?;
                    let tmp = self.dir.join(format!("tmp-{}-{}.htsvoice", std::process::id(), self.next_uid));
                    std::fs::write(&tmp, &bytes).map_err(|e| format!("write {:?}: {}", tmp, e))?;
                    std::fs::rename(&tmp, &p).map_err(|e| format!("rename {:?}: {}", p, e))?;
                }
                p
            }
        };
        let loaded = guarded(|| jbonsai::model::load_htsvoice_file(&path));
        let voice = match loaded {
            Ok(Ok(v)) => v,
            Ok(Err(e)) => return Err(format!("fault-free voice {} rejected by loader: {}", v.to_text(), e)),
            Err(p) => return Err(format!("fault-free voice {} panicked the loader: {} @{}:{}", v.to_text(), p.msg, p.file, p.line)),
        };
        // stable id (same in every thread and process): hash of the voice reference
        let uid = (crate::rng::hash_bytes(v.to_text().as_bytes()) & 0x7fff_ffff) as u32;
        self.next_uid += 1;
        // keep the cache bounded
        if self.voices.len() > 600 {
            let victims: Vec<VoiceRef> = self.voices.keys().filter(|k| matches!(k, VoiceRef::Gen(_))).take(200).cloned().collect();
            for k in victims {
                self.voices.remove(&k);
            }
        }
        let a = Arc::new(voice);
        self.voices.insert(v.clone(), (a.clone(), path, uid));
        Ok((a, uid))
    }

    /// Write the voice files of the batch-wide pools (and the perturbed bundled copies) up front.
    /// `preload`: also parse them here, so forked runs inherit the loaded `Arc<Voice>`s. Only used for
    /// properties whose runs are grouped anyway (C19, C20); C02/C03 runs load their voices themselves,
    /// so that nothing of jbonsai has run in their process image before the history starts.
    pub fn prebuild_pool_voices(&mut self, pools: &crate::gen::Pools, with_tiny: bool, preload: bool) {
        let mut refs: Vec<VoiceRef> = Vec::new();
        for (base, metas) in [(0usize, &pools.metas), (1000usize, &pools.plain_metas)] {
            for (mi, m) in metas.iter().enumerate() {
                for k in 0..4 {
                    refs.push(VoiceRef::Gen(crate::voicegen::VoiceSpec { meta: m.clone(), body: pools.body(base + mi, k) }));
                }
            }
        }
        if with_tiny {
            for v in 0..2 {
                refs.push(VoiceRef::Gen(crate::voicegen::VoiceSpec { meta: crate::gen::tiny_meta(v), body: 7 + v as u64 }));
            }
        }
        for k in 0..3 {
            refs.push(VoiceRef::Perturbed(k));
        }
        for v in refs {
            let p = self.dir.join(format!("v-{:016x}.htsvoice", crate::rng::hash_bytes(v.to_text().as_bytes())));
            if !p.exists() {
                if let Ok(bytes) = self.voice_bytes(&v) {
                    let _ = std::fs::write(&p, bytes);
                }
            }
            if preload && matches!(v, VoiceRef::Gen(_)) {
                let _ = self.voice(&v);
            }
        }
    }

    /// Text of label `idx`. Indices below the corpus length are corpus lines; larger ones are
    /// recombinations (idx = base + len * v, v >= 1): the phoneme context of line `base`, the
    /// A..E groups of a second line, F..J of a third and K of a fourth. Every group keeps the shape
    /// a front end emits; the number of distinct label strings is no longer bounded by the corpus.
    pub fn line_text(&self, idx: u32) -> String {
        let n = self.corpus.len();
        let base = idx as usize % n;
        let v = idx as usize / n;
        let l = &self.corpus[base];
        if v == 0 {
            return l.clone();
        }
        let cut = |s: &str| -> Option<(usize, usize, usize)> { Some((s.find("/A:")?, s.find("/F:")?, s.find("/K:")?)) };
        let x = &self.corpus[(base + v * 97) % n];
        let y = &self.corpus[(base + v * 389 + 11) % n];
        let z = &self.corpus[(base + v * 31 + 5) % n];
        match (cut(l), cut(x), cut(y), cut(z)) {
            (Some((la, _, _)), Some((xa, xf, _)), Some((_, yf, yk)), Some((_, _, zk))) if la < l.len() && xa < xf && yf < yk => {
                format!("{}{}{}{}", &l[..la], &x[xa..xf], &y[yf..yk], &z[zk..])
            }
            _ => l.clone(),
        }
    }

    pub fn label(&mut self, idx: u32) -> Result<jlabel::Label, String> {
        if let Some(l) = self.labels.get(&idx) {
            return Ok(l.clone());
        }
        let line = self.line_text(idx);
        let l: jlabel::Label = line.parse().map_err(|e| format!("label {} ({}) does not parse: {:?}", idx, line, e))?;
        if self.labels.len() < 4096 {
            self.labels.insert(idx, l.clone());
        }
        Ok(l)
    }

    pub fn utt_strings(&self, utt: &crate::ops::Utt) -> Vec<String> {
        utt.lines
            .iter()
            .enumerate()
            .map(|(i, idx)| {
                let l = self.line_text(*idx);
                if utt.timed > 0 {
                    let d = utt.timed as u64 * 10_000;
                    format!("{} {} {}", i as u64 * d, (i as u64 + 1) * d, l)
                } else {
                    l
                }
            })
            .collect()
    }
}

impl Drop for Env {
    fn drop(&mut self) {
        let _ = std::fs::remove_dir_all(&self.dir);
    }
}
