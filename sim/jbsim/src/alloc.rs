//! Counting allocator: the simulated "memory" of world W2. A case gets a budget; a request that
//! would exceed it is recorded and refused (Rust then aborts the process; the parent attributes the
//! abort to the case and confirms it alone).

use std::alloc::{GlobalAlloc, Layout, System};
use std::sync::atomic::{AtomicBool, AtomicIsize, AtomicUsize, Ordering};

pub struct Counting;

static LIVE: AtomicIsize = AtomicIsize::new(0);
static PEAK: AtomicIsize = AtomicIsize::new(0);
static BUDGET: AtomicUsize = AtomicUsize::new(usize::MAX);
static ARMED: AtomicBool = AtomicBool::new(false);
pub static REFUSED_SIZE: AtomicUsize = AtomicUsize::new(0);
static MARK_FD: AtomicUsize = AtomicUsize::new(usize::MAX);

// Counting happens only while a case is armed (W2 workers are single-threaded); otherwise every
// call goes straight to the system allocator, so the multi-threaded W1 batches pay nothing and do
// not contend on these counters. LIVE is the net number of bytes allocated since `arm` (it may go
// negative when memory allocated before `arm` is freed inside the case).
unsafe impl GlobalAlloc for Counting {
    unsafe fn alloc(&self, l: Layout) -> *mut u8 {
        if !ARMED.load(Ordering::Relaxed) {
            return System.alloc(l);
        }
        if over(l.size()) {
            refuse(l.size());
            return std::ptr::null_mut();
        }
        let p = System.alloc(l);
        if !p.is_null() {
            add(l.size());
        }
        p
    }
    unsafe fn dealloc(&self, p: *mut u8, l: Layout) {
        System.dealloc(p, l);
        if ARMED.load(Ordering::Relaxed) {
            LIVE.fetch_sub(l.size() as isize, Ordering::Relaxed);
        }
    }
    unsafe fn alloc_zeroed(&self, l: Layout) -> *mut u8 {
        if !ARMED.load(Ordering::Relaxed) {
            return System.alloc_zeroed(l);
        }
        if over(l.size()) {
            refuse(l.size());
            return std::ptr::null_mut();
        }
        let p = System.alloc_zeroed(l);
        if !p.is_null() {
            add(l.size());
        }
        p
    }
    unsafe fn realloc(&self, p: *mut u8, l: Layout, new: usize) -> *mut u8 {
        if !ARMED.load(Ordering::Relaxed) {
            return System.realloc(p, l, new);
        }
        if new > l.size() && over(new - l.size()) {
            refuse(new);
            return std::ptr::null_mut();
        }
        let q = System.realloc(p, l, new);
        if !q.is_null() {
            if new >= l.size() {
                add(new - l.size());
            } else {
                LIVE.fetch_sub((l.size() - new) as isize, Ordering::Relaxed);
            }
        }
        q
    }
}

fn over(size: usize) -> bool {
    let live = LIVE.load(Ordering::Relaxed);
    size > isize::MAX as usize || live.saturating_add(size as isize) > BUDGET.load(Ordering::Relaxed) as isize
}

fn add(size: usize) {
    let now = LIVE.fetch_add(size as isize, Ordering::Relaxed) + size as isize;
    PEAK.fetch_max(now, Ordering::Relaxed);
}

fn refuse(size: usize) {
    REFUSED_SIZE.store(size, Ordering::SeqCst);
    ARMED.store(false, Ordering::SeqCst);
    // leave a marker for the parent: "ALLOC <size>\n" on the pre-opened marker fd (no allocation here)
    let fd = MARK_FD.load(Ordering::SeqCst);
    if fd != usize::MAX {
        let mut buf = [0u8; 40];
        let mut n = 0;
        for b in b"ALLOC " {
            buf[n] = *b;
            n += 1;
        }
        let mut digits = [0u8; 24];
        let mut k = 0;
        let mut v = size;
        if v == 0 {
            digits[0] = b'0';
            k = 1;
        }
        while v > 0 {
            digits[k] = b'0' + (v % 10) as u8;
            v /= 10;
            k += 1;
        }
        while k > 0 {
            k -= 1;
            buf[n] = digits[k];
            n += 1;
        }
        buf[n] = b'\n';
        n += 1;
        use std::io::Write;
        use std::os::unix::io::FromRawFd;
        let mut f = unsafe { std::fs::File::from_raw_fd(fd as i32) };
        let _ = f.write_all(&buf[..n]);
        std::mem::forget(f);
    }
}

pub fn set_marker_fd(fd: i32) {
    MARK_FD.store(fd as usize, Ordering::SeqCst);
}

/// Arm the budget: at most `extra` net bytes may be allocated from now on.
pub fn arm(extra: usize) {
    REFUSED_SIZE.store(0, Ordering::SeqCst);
    LIVE.store(0, Ordering::SeqCst);
    PEAK.store(0, Ordering::SeqCst);
    BUDGET.store(extra.min(isize::MAX as usize), Ordering::SeqCst);
    ARMED.store(true, Ordering::SeqCst);
}

/// Disarm; returns the peak net number of bytes allocated while armed.
pub fn disarm() -> usize {
    ARMED.store(false, Ordering::SeqCst);
    PEAK.load(Ordering::SeqCst).max(0) as usize
}
