//! Counting allocator: the simulated "memory" of world W2. A case gets a budget; a request that
//! would exceed it is recorded and refused (Rust then aborts the process; the parent attributes the
//! abort to the case and confirms it alone).

use std::alloc::{GlobalAlloc, Layout, System};
use std::sync::atomic::{AtomicBool, AtomicUsize, Ordering};

pub struct Counting;

static LIVE: AtomicUsize = AtomicUsize::new(0);
static PEAK: AtomicUsize = AtomicUsize::new(0);
static BUDGET: AtomicUsize = AtomicUsize::new(usize::MAX);
static ARMED: AtomicBool = AtomicBool::new(false);
pub static REFUSED_SIZE: AtomicUsize = AtomicUsize::new(0);
static MARK_FD: AtomicUsize = AtomicUsize::new(usize::MAX);

unsafe impl GlobalAlloc for Counting {
    unsafe fn alloc(&self, l: Layout) -> *mut u8 {
        if ARMED.load(Ordering::Relaxed) {
            let live = LIVE.load(Ordering::Relaxed);
            if live.saturating_add(l.size()) > BUDGET.load(Ordering::Relaxed) {
                refuse(l.size());
                return std::ptr::null_mut();
            }
        }
        let p = System.alloc(l);
        if !p.is_null() {
            let now = LIVE.fetch_add(l.size(), Ordering::Relaxed) + l.size();
            PEAK.fetch_max(now, Ordering::Relaxed);
        }
        p
    }
    unsafe fn dealloc(&self, p: *mut u8, l: Layout) {
        System.dealloc(p, l);
        LIVE.fetch_sub(l.size(), Ordering::Relaxed);
    }
    unsafe fn alloc_zeroed(&self, l: Layout) -> *mut u8 {
        if ARMED.load(Ordering::Relaxed) {
            let live = LIVE.load(Ordering::Relaxed);
            if live.saturating_add(l.size()) > BUDGET.load(Ordering::Relaxed) {
                refuse(l.size());
                return std::ptr::null_mut();
            }
        }
        let p = System.alloc_zeroed(l);
        if !p.is_null() {
            let now = LIVE.fetch_add(l.size(), Ordering::Relaxed) + l.size();
            PEAK.fetch_max(now, Ordering::Relaxed);
        }
        p
    }
    unsafe fn realloc(&self, p: *mut u8, l: Layout, new: usize) -> *mut u8 {
        if ARMED.load(Ordering::Relaxed) && new > l.size() {
            let live = LIVE.load(Ordering::Relaxed);
            if live.saturating_add(new - l.size()) > BUDGET.load(Ordering::Relaxed) {
                refuse(new);
                return std::ptr::null_mut();
            }
        }
        let q = System.realloc(p, l, new);
        if !q.is_null() {
            if new >= l.size() {
                let now = LIVE.fetch_add(new - l.size(), Ordering::Relaxed) + (new - l.size());
                PEAK.fetch_max(now, Ordering::Relaxed);
            } else {
                LIVE.fetch_sub(l.size() - new, Ordering::Relaxed);
            }
        }
        q
    }
}

fn refuse(size: usize) {
    REFUSED_SIZE.store(size, Ordering::SeqCst);
    ARMED.store(false, Ordering::SeqCst);
    // leave a marker for the parent: "ALLOC <size>\n" on the pre-opened marker fd (no allocation here)
    let fd = MARK_FD.load(Ordering::SeqCst);
    if fd != usize::MAX {
        let mut buf = [0u8; 40];
        let mut n = 0;
        for b in b"ALLOC " {
            buf[n] = *b;
            n += 1;
        }
        let mut digits = [0u8; 24];
        let mut k = 0;
        let mut v = size;
        if v == 0 {
            digits[0] = b'0';
            k = 1;
        }
        while v > 0 {
            digits[k] = b'0' + (v % 10) as u8;
            v /= 10;
            k += 1;
        }
        while k > 0 {
            k -= 1;
            buf[n] = digits[k];
            n += 1;
        }
        buf[n] = b'\n';
        n += 1;
        use std::io::Write;
        use std::os::unix::io::FromRawFd;
        let mut f = unsafe { std::fs::File::from_raw_fd(fd as i32) };
        let _ = f.write_all(&buf[..n]);
        std::mem::forget(f);
    }
}

pub fn set_marker_fd(fd: i32) {
    MARK_FD.store(fd as usize, Ordering::SeqCst);
}

/// Arm the budget: at most `extra` more live bytes than now.
pub fn arm(extra: usize) {
    REFUSED_SIZE.store(0, Ordering::SeqCst);
    let live = LIVE.load(Ordering::SeqCst);
    PEAK.store(live, Ordering::SeqCst);
    BUDGET.store(live.saturating_add(extra), Ordering::SeqCst);
    ARMED.store(true, Ordering::SeqCst);
}

/// Disarm; returns the peak number of bytes allocated above the level at `arm` time.
pub fn disarm() -> usize {
    ARMED.store(false, Ordering::SeqCst);
    let b = BUDGET.swap(usize::MAX, Ordering::SeqCst);
    let _ = b;
    PEAK.load(Ordering::SeqCst)
}

pub fn live() -> usize {
    LIVE.load(Ordering::SeqCst)
}
