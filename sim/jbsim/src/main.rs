mod alloc;
mod env;
mod fork;
mod gen;
mod json;
mod l2a;
mod ops;
mod rng;
mod runner;
mod sched;
mod sim;
mod voicegen;
mod w2;
mod w2run;

#[global_allocator]
static GLOBAL: alloc::Counting = alloc::Counting;

use std::collections::BTreeMap;
use std::path::PathBuf;

use json::J;
use runner::{BatchCfg, ReplayFile};
use sim::Prop;

pub const DEFAULT_SEED: u64 = 20261004;

pub struct Args {
    pub pos: Vec<String>,
    pub opt: BTreeMap<String, String>,
}

impl Args {
    fn parse() -> Args {
        let mut pos = Vec::new();
        let mut opt = BTreeMap::new();
        let mut it = std::env::args().skip(1);
        while let Some(a) = it.next() {
            if let Some(k) = a.strip_prefix("--") {
                let v = it.next().unwrap_or_default();
                opt.insert(k.to_string(), v);
            } else {
                pos.push(a);
            }
        }
        Args { pos, opt }
    }
    pub fn get(&self, k: &str, d: &str) -> String {
        self.opt.get(k).cloned().unwrap_or_else(|| d.to_string())
    }
    pub fn num(&self, k: &str, d: u64) -> u64 {
        self.opt.get(k).and_then(|v| v.parse().ok()).unwrap_or(d)
    }
}

pub struct Known {
    pub known: Vec<(String, String, String)>, // (property, sig, text)
}

impl Known {
    pub fn load(path: &str) -> Known {
        let mut known = Vec::new();
        if let Ok(t) = std::fs::read_to_string(path) {
            for l in t.lines() {
                if let Some(rest) = l.strip_prefix("known: ") {
                    let mut prop = String::new();
                    let mut sig = String::new();
                    for w in rest.split_whitespace() {
                        if let Some(p) = w.strip_prefix("property=") {
                            prop = p.to_string();
                        } else if let Some(s) = w.strip_prefix("sig=") {
                            sig = s.to_string();
                        }
                    }
                    if !prop.is_empty() && !sig.is_empty() {
                        known.push((prop, sig, rest.to_string()));
                    }
                }
            }
        }
        Known { known }
    }
    pub fn find(&self, prop: &str, sig: &str) -> Option<&str> {
        let s = sig.replace(' ', "_");
        self.known.iter().find(|k| k.0 == prop && k.1 == s).map(|k| k.2.as_str())
    }
}

pub fn seed_from(args: &Args) -> u64 {
    if let Some(s) = args.opt.get("seed") {
        if let Ok(v) = s.parse() {
            return v;
        }
    }
    std::env::var("VERIF_SEED").ok().and_then(|s| s.parse().ok()).unwrap_or(DEFAULT_SEED)
}

fn main() {
    env::install_panic_hook();
    jbonsai::verif::set_yield_hook(Some(l2a::combined_hook));
    let args = Args::parse();
    let owner = env::claim_scratch_root();
    let code = match args.pos.first().map(|s| s.as_str()) {
        Some("w1") => cmd_w1(&args),
        Some("w1child") => cmd_w1child(&args),
        Some("replay") => cmd_replay(&args),
        Some("genvoice") => cmd_genvoice(&args),
        Some("digest") => cmd_digest(&args),
        Some("run1") => cmd_run1(&args),
        #[cfg(feature = "threads")]
        Some("l2a") => l2a::cmd_l2a(&args),
        Some("w2") => w2run::cmd_w2(&args),
        Some("w2worker") => w2run::cmd_worker(&args),
        Some("w2exec") => w2run::cmd_exec_file(&args),
        _ => {
            eprintln!("usage: jbsim w1 <C02|C03|C19|C20> --tier quick|thorough [--seed N] [--runs N] [--workers N] --evidence F --replay-dir D --known F\n       jbsim replay <file>");
            2
        }
    };
    if owner {
        let _ = std::fs::remove_dir_all(env::scratch_root());
    }
    std::process::exit(code);
}

fn cmd_genvoice(args: &Args) -> i32 {
    // jbsim genvoice <spec-text> <out>
    let pool = match voicegen::QuestionPool::from_bundled() {
        Ok(p) => p,
        Err(e) => {
            eprintln!("{}", e);
            return 2;
        }
    };
    let Some(spec) = args.pos.get(1).and_then(|s| voicegen::VoiceSpec::from_text(s)) else { return 2 };
    let bytes = voicegen::build(&spec, &pool);
    std::fs::write(args.pos.get(2).map(|s| s.as_str()).unwrap_or("/dev/stdout"), bytes).map(|_| 0).unwrap_or(2)
}

fn cmd_replay(args: &Args) -> i32 {
    let Some(path) = args.pos.get(1) else { return 2 };
    let text = match std::fs::read_to_string(path) {
        Ok(t) => t,
        Err(e) => {
            println!("HARNESS-ERROR cannot read {}: {}", path, e);
            return 2;
        }
    };
    let f = match ReplayFile::parse(&text) {
        Ok(f) => f,
        Err(e) => {
            println!("HARNESS-ERROR {}", e);
            return 2;
        }
    };
    match (f.world.as_str(), f.layer.as_str()) {
        ("W1", "L1-reexec") => {
            let seen = reexecute_digests(std::path::Path::new(path), 12);
            if seen.len() >= 2 {
                println!("REPRODUCED property={} signature={} detail={} distinct observations in 12 executions", f.property, f.signature, seen.len());
                println!("SAME-SIGNATURE");
                1
            } else {
                println!("NOT-REPRODUCED property={} (12 executions in fresh processes agree)", f.property);
                0
            }
        }
        ("W1", "L1-group") => {
            let Some(prop) = Prop::from_id(&f.property) else { return 2 };
            // rebuild the batch configuration and re-execute the group from the seed
            let mut a = Args { pos: vec!["w1".into(), f.property.clone()], opt: BTreeMap::new() };
            let mut gid: Option<u64> = None;
            for l in &f.body {
                if let Some(c) = l.strip_prefix("cfg ") {
                    for kv in c.split_whitespace() {
                        if let Some((k, v)) = kv.split_once('=') {
                            let k = match k {
                                "runs_per_fork" => "runs-per-fork",
                                "sys_variants" => "sys-variants",
                                k => k,
                            };
                            a.opt.insert(k.to_string(), v.to_string());
                        }
                    }
                } else if let Some(g) = l.strip_prefix("group ") {
                    gid = g.trim().parse().ok();
                }
            }
            a.opt.insert("seed".into(), f.verif_seed.to_string());
            let Some(gid) = gid else {
                println!("HARNESS-ERROR bad L1-group replay body");
                return 2;
            };
            let cfg = w1_cfg(&a, prop);
            // a failure that depends on the allocator's placement may need a few fresh processes
            // (each has its own address-space layout): up to 6 attempts, the first hit counts
            let mut res = runner::rerun_group(&cfg, gid, false);
            let mut attempts = 1;
            while attempts < 5 && matches!(&res, Ok(found) if !found.iter().any(|x| x.run == f.run && x.violation.signature() == f.signature)) {
                // attempts 3-5: with everything the group's shard process executed before it
                res = runner::rerun_group(&cfg, gid, attempts >= 2);
                attempts += 1;
            }
            match res {
                Ok(found) => {
                    let hit = found.iter().find(|x| x.run == f.run && x.violation.signature() == f.signature).or_else(|| found.iter().find(|x| x.run == f.run)).or(found.first());
                    match hit {
                        Some(x) => {
                            println!("REPRODUCED property={} signature={} run={} attempt={} detail={}", f.property, x.violation.signature(), x.run, attempts, x.violation.detail);
                            println!("{}", if x.violation.signature() == f.signature && x.run == f.run { "SAME-SIGNATURE".to_string() } else { format!("DIFFERENT-SIGNATURE recorded={} run {}", f.signature, f.run) });
                            1
                        }
                        None => {
                            println!("NOT-REPRODUCED property={} (group {} re-executed clean)", f.property, gid);
                            0
                        }
                    }
                }
                Err(e) => {
                    println!("HARNESS-ERROR {}", e);
                    2
                }
            }
        }
        ("W1", "L1") => {
            let Some(prop) = Prop::from_id(&f.property) else { return 2 };
            let ops = match runner::parse_ops(&f.body) {
                Ok(o) => o,
                Err(e) => {
                    println!("HARNESS-ERROR {}", e);
                    return 2;
                }
            };
            let mut env = match env::Env::new("replay") {
                Ok(e) => e,
                Err(e) => {
                    println!("HARNESS-ERROR {}", e);
                    return 2;
                }
            };
            let scratch = env.dir.join("replay.out");
            let r = match runner::run_ops_isolated(prop, &ops, &mut env, &scratch) {
                Ok((v, _)) => v,
                Err(h) => {
                    println!("HARNESS-ERROR {}", h);
                    return 2;
                }
            };
            match r {
                Some(v) => {
                    println!("REPRODUCED property={} signature={} at-op={} detail={}", f.property, v.signature(), v.op_index, v.detail);
                    if v.signature() == f.signature {
                        println!("SAME-SIGNATURE");
                    } else {
                        println!("DIFFERENT-SIGNATURE recorded={}", f.signature);
                    }
                    1
                }
                None => {
                    println!("NOT-REPRODUCED property={} (history ran clean)", f.property);
                    0
                }
            }
        }
        #[cfg(feature = "threads")]
        ("W1", "L2a") => l2a::replay_l2a(&f),
        ("W2", _) => {
            let (sig, detail) = w2run::run_file_in_child(std::path::Path::new(path), 60);
            if sig == "harness" {
                println!("HARNESS-ERROR {}", detail);
                2
            } else if sig.is_empty() {
                println!("NOT-REPRODUCED property=C18 (loader returned: {})", detail);
                0
            } else {
                println!("REPRODUCED property=C18 signature={} detail={}", sig, detail);
                println!("{}", if sig == f.signature { "SAME-SIGNATURE".to_string() } else { format!("DIFFERENT-SIGNATURE recorded={}", f.signature) });
                1
            }
        }
        _ => {
            println!("HARNESS-ERROR unknown world/layer {}/{}", f.world, f.layer);
            2
        }
    }
}

pub fn replay_in_fresh_process(path: &std::path::Path) -> (i32, String) {
    let exe = std::env::current_exe().expect("current_exe");
    match std::process::Command::new(exe).arg("replay").arg(path).output() {
        Ok(o) => (o.status.code().unwrap_or(2), String::from_utf8_lossy(&o.stdout).to_string()),
        Err(e) => (2, e.to_string()),
    }
}

fn w1_cfg(args: &Args, prop: Prop) -> BatchCfg {
    let tier = args.get("tier", "quick");
    let thorough = tier == "thorough";
    let default_runs = match (prop, thorough) {
        (Prop::C02, false) => 40_000,
        (Prop::C02, true) => 1_500_000,
        (Prop::C03, false) => 12_000,
        (Prop::C03, true) => 400_000,
        (Prop::C19, false) => 80_000,
        (Prop::C19, true) => 1_000_000,
        (Prop::C20, false) => 400_000,
        (Prop::C20, true) => 3_000_000,
    };
    BatchCfg {
        prop,
        tier: tier.clone(),
        verif_seed: seed_from(args),
        runs: args.num("runs", default_runs),
        workers: args.num("workers", 16) as usize,
        replay_dir: PathBuf::from(args.get("replay-dir", "/verif/replays")),
        determinism_sample: args.num("determinism", if thorough { 2000 } else { 300 }),
        sys_max_n: if thorough { 4 } else { 3 },
        sys_variants: args.num("sys-variants", if thorough { 2 } else { 1 }) as usize,
        dump_digests: args.opt.get("dump-digests").map(PathBuf::from),
        runs_per_fork: args.num("runs-per-fork", match prop { Prop::C20 => 64, Prop::C19 => 16, Prop::C02 => 4, Prop::C03 => 1 }),
    }
}

fn cmd_w1child(args: &Args) -> i32 {
    let Some(prop) = args.pos.get(1).and_then(|s| Prop::from_id(s)) else { return 2 };
    let cfg = w1_cfg(args, prop);
    let only = args.opt.get("only").map(|p| std::fs::read_to_string(p).unwrap_or_default().lines().filter_map(|l| l.trim().parse().ok()).collect::<Vec<u64>>());
    runner::run_child(&cfg, args.num("shard", 0), args.num("of", 1).max(1), only, std::path::Path::new(&args.get("out", "/dev/null")))
}

fn cmd_w1(args: &Args) -> i32 {
    let Some(prop) = args.pos.get(1).and_then(|s| Prop::from_id(s)) else {
        eprintln!("w1: need property id");
        return 2;
    };
    let tier = args.get("tier", "quick");
    let seed = seed_from(args);
    let cfg = w1_cfg(args, prop);
    let known = Known::load(&args.get("known", "/verif/known_findings.txt"));
    let out = match runner::run_batch(&cfg) {
        Ok(o) => o,
        Err(e) => {
            println!("HARNESS-ERROR {}", e);
            return 2;
        }
    };
    let mut exit = 0;
    if !out.harness_errors.is_empty() {
        for h in &out.harness_errors {
            println!("HARNESS-ERROR {}", h);
        }
        exit = 2;
    }
    let mut reexec_reports: Vec<(String, PathBuf, String)> = Vec::new();
    if out.determinism_mismatches > 0 {
        // The same history, executed twice in separate pristine processes, was observed differently.
        // With every run isolated by fork() the harness contributes no nondeterminism, so for C03
        // ("deterministic pure function") this is a candidate violation: confirm it by re-executing the
        // history in freshly spawned processes.
        let mut confirmed = 0;
        if prop == Prop::C03 {
            if let Ok(mut env) = env::Env::new("reexec") {
                for i in out.det_mismatch_runs.iter().take(3) {
                    if let Ok((ops, swarm)) = runner::ops_of_run(&cfg, *i, &mut env) {
                        let rf = ReplayFile {
                            property: "C03".into(),
                            world: "W1".into(),
                            layer: "L1-reexec".into(),
                            verif_seed: seed,
                            run: *i,
                            swarm,
                            signature: "C03.re-execution|output-differs-between-identical-executions".into(),
                            detail: "the same call history, executed in separate fresh processes, produced different waveforms / return values".into(),
                            body: ops.iter().map(|o| o.to_text()).collect(),
                        };
                        if let Ok(path) = runner::write_replay(&cfg.replay_dir, &format!("C03-{}-{}-reexec.replay", seed, i), &rf) {
                            let seen = reexecute_digests(&path, 8);
                            if seen.len() >= 2 {
                                confirmed += 1;
                                reexec_reports.push((rf.signature.clone(), path, format!("{} distinct observations in 8 executions of a {}-op history", seen.len(), ops.len())));
                            } else {
                                let _ = std::fs::remove_file(&path);
                            }
                        }
                    }
                }
            }
        }
        if confirmed == 0 {
            println!("HARNESS-ERROR determinism: {} of {} re-executed runs differ", out.determinism_mismatches, out.determinism_pairs);
            exit = 2;
        }
    }
    // violations: one report per distinct signature, lowest run index first
    let mut by_sig: BTreeMap<String, &runner::Found> = BTreeMap::new();
    for f in &out.found {
        by_sig.entry(f.violation.signature()).or_insert(f);
    }
    let mut violations_reported = 0u64;
    let mut known_hits = Vec::new();
    let mut reports = Vec::new();
    let mut env = match env::Env::new("min") {
        Ok(e) => e,
        Err(e) => {
            println!("HARNESS-ERROR {}", e);
            return 2;
        }
    };
    let mut sigs: Vec<(&String, &&runner::Found)> = by_sig.iter().collect();
    sigs.sort_by_key(|(_, f)| f.run);
    for (sig, f) in sigs.into_iter().take(6) {
        if let Some(text) = known.find(prop.id(), sig) {
            println!("KNOWN-FINDING: {}", text);
            known_hits.push(sig.clone());
            continue;
        }
        let scratch = env.dir.join("final.out");
        // does the run reproduce on its own? If not and runs share a process (runs_per_fork > 1), the
        // violation needs what its predecessors in the same process left behind: replay the group
        // (predecessors' ops, a `reset` between runs, then this run) as one history
        let mut start_ops = f.ops.clone();
        let mut grouped = false;
        let alone = matches!(runner::run_ops_isolated(prop, &f.ops, &mut env, &scratch), Ok((Some(ref v), _)) if &v.signature() == sig);
        if !alone && cfg.runs_per_fork > 1 {
            let k = cfg.runs_per_fork;
            let first = (f.run / k) * k;
            let mut all: Vec<ops::TOp> = Vec::new();
            for i in first..f.run {
                if let Ok((o, _)) = runner::ops_of_run(&cfg, i, &mut env) {
                    all.extend(o);
                    all.push(ops::TOp { task: 0, op: ops::Op::Reset });
                }
            }
            all.extend(f.ops.iter().cloned());
            if matches!(runner::run_ops_isolated(prop, &all, &mut env, &scratch), Ok((Some(ref v), _)) if &v.signature() == sig) {
                start_ops = all;
                grouped = true;
            }
        }
        let min_ops = runner::minimize(prop, &start_ops, sig, &mut env, if grouped { 60.0 } else { 30.0 });
        let (detail, nexec) = match runner::run_ops_isolated(prop, &min_ops, &mut env, &scratch) {
            Ok((Some(v), n)) => (v.detail, n),
            _ => (f.violation.detail.clone(), min_ops.len()),
        };
        struct RR {
            ops: Vec<ops::TOp>,
        }
        let rr = RR { ops: min_ops[..nexec.min(min_ops.len())].to_vec() };
        let rf = ReplayFile {
            property: prop.id().to_string(),
            world: "W1".into(),
            layer: "L1".into(),
            verif_seed: seed,
            run: f.run,
            swarm: if grouped { format!("{} [group replay: runs {}..={} of one process]", f.swarm, (f.run / cfg.runs_per_fork) * cfg.runs_per_fork, f.run) } else { f.swarm.clone() },
            signature: sig.clone(),
            detail,
            body: rr.ops.iter().map(|o| o.to_text()).collect(),
        };
        let name = format!("{}-{}-{}.replay", prop.id(), seed, f.run);
        let path = match runner::write_replay(&cfg.replay_dir, &name, &rf) {
            Ok(p) => p,
            Err(e) => {
                println!("HARNESS-ERROR cannot write replay: {}", e);
                return 2;
            }
        };
        let (code, outp) = replay_in_fresh_process(&path);
        if code == 1 && outp.contains("SAME-SIGNATURE") {
            println!("VIOLATION property={} replay={}", prop.id(), path.display());
            println!("  signature: {}", sig);
            println!("  detail: {}", rf.detail);
            println!("  minimised history: {} ops (from {})", rf.body.len(), f.ops.len());
            violations_reported += 1;
            reports.push(J::obj().set("signature", J::s(sig)).set("replay", J::s(&path.display().to_string())).set("ops", J::u(rf.body.len() as u64)).set("detail", J::s(&rf.detail)));
            exit = exit.max(1);
        } else {
            // last resort: the violation may depend on where the allocator places things (an address used
            // as an identity), which an explicit op list cannot pin down because its replay allocates
            // differently. Re-execute the run's whole group the way the batch did, from the seed.
            let gid = f.run / cfg.runs_per_fork.max(1);
            let mut body = vec![
                format!("cfg tier={} runs={} runs_per_fork={} sys_variants={} workers={}", cfg.tier, cfg.runs, cfg.runs_per_fork, cfg.sys_variants, cfg.workers),
                format!("group {}", gid),
                format!("failing_run {}", f.run),
            ];
            body.extend(f.ops.iter().map(|o| format!("# {}", o.to_text())));
            let rf2 = ReplayFile {
                property: prop.id().to_string(),
                world: "W1".into(),
                layer: "L1-group".into(),
                verif_seed: seed,
                run: f.run,
                swarm: format!("{} [re-execution of group {} from the seed; the op list below is for reading only]", f.swarm, gid),
                signature: sig.clone(),
                detail: f.violation.detail.clone(),
                body,
            };
            let name2 = format!("{}-{}-{}-group.replay", prop.id(), seed, f.run);
            let mut ok = false;
            if let Ok(path2) = runner::write_replay(&cfg.replay_dir, &name2, &rf2) {
                let (c2, o2) = replay_in_fresh_process(&path2);
                if c2 == 1 && o2.contains("SAME-SIGNATURE") {
                    let _ = std::fs::remove_file(&path);
                    println!("VIOLATION property={} replay={}", prop.id(), path2.display());
                    println!("  signature: {}", sig);
                    println!("  detail: {}", rf2.detail);
                    println!("  replay re-executes runs {}..{} of the batch from the seed (the failure depends on the allocator's placement and does not reproduce from an explicit op list)", gid * cfg.runs_per_fork, (gid + 1) * cfg.runs_per_fork - 1);
                    violations_reported += 1;
                    reports.push(J::obj().set("signature", J::s(sig)).set("replay", J::s(&path2.display().to_string())).set("ops", J::u(f.ops.len() as u64)).set("detail", J::s(&rf2.detail)).set("replay_kind", J::s("group re-execution from the seed")));
                    exit = exit.max(1);
                    ok = true;
                } else {
                    let _ = std::fs::remove_file(&path2);
                }
            }
            if !ok {
                println!("HARNESS-ERROR violation '{}' of run {} did not reproduce from its replay file in a fresh process (exit {}): {}", sig, f.run, code, outp.trim());
                exit = 2;
            }
        }
    }
    drop(env);
    for (sig, path, detail) in &reexec_reports {
        if known.find(prop.id(), sig).is_some() {
            continue;
        }
        println!("VIOLATION property={} replay={}", prop.id(), path.display());
        println!("  signature: {}", sig);
        println!("  detail: {}", detail);
        violations_reported += 1;
        reports.push(J::obj().set("signature", J::s(sig)).set("replay", J::s(&path.display().to_string())).set("detail", J::s(detail)));
    }
    // a violation that was reproduced from its replay file in a fresh process is a verdict even if
    // something else in the batch went wrong
    if violations_reported > 0 {
        exit = 1;
    }

    // dead-probe check (thorough only): a workload that never reaches its rare conditions must not pass silently
    let required: &[&str] = match prop {
        Prop::C02 => &["finish_after_partial", "finish_after_exhaustion", "step_after_exhaustion", "zero_frame_generator", "generator_moved_across_tasks", "generator_dropped_midstream", "mixed_buffer_sizes", "engine_dropped_while_generators_live", "process_with_1000_or_more_api_calls"],
        Prop::C03 => &["same_key_on_two_tasks", "same_key_on_two_engine_slots", "clone", "failed_call:err", "generator_waveform_registered", "engine_dropped_while_generators_live", "fresh_process_reference_checked", "process_with_1000_or_more_api_calls", "process_with_256_or_more_distinct_waveform_keys"],
        Prop::C19 => &["setw:valid", "setw:wrong_length", "setw:wrong_length_good_sum", "setw:bad_sum", "setw:nan", "setw:inf", "rejected_update", "synth_vs_twin", "vsnew:empty", "vsnew:metadata", "vsnew:ok", "vsnew_variant:0", "vsnew_variant:1", "vsnew_variant:2", "vsnew_lossy_comparison_trap", "vsnew_mutated_first_voice", "vsnew_mutated_third_or_later_voice", "reload_voice_set", "clone_from", "weights_on_stream_index_3_or_later"],
        Prop::C20 => &["clamp_applied:speed", "clamp_applied:alpha", "clamp_applied:beta", "clamp_applied:msd_threshold", "clamp_applied:gv_weight", "clamp_applied:sampling_frequency", "clamp_applied:fperiod", "clone", "clone_from", "per_stream_setter_on_stream_index_3_or_later"],
    };
    let mut dead = Vec::new();
    for p in required {
        if out.stats.probes.get(*p).copied().unwrap_or(0) == 0 {
            dead.push(p.to_string());
        }
    }
    if !dead.is_empty() && exit == 0 && out.found.is_empty() {
        if tier == "thorough" {
            println!("HARNESS-ERROR dead probes: {:?}", dead);
            exit = 2;
        } else {
            // a quick batch is small enough for a rare probe to stay at zero for some seed; it is reported
            // in the evidence ("dead_probes") but only a thorough run fails on it
            println!("NOTE probes at zero in this quick batch: {:?}", dead);
        }
    }

    // evidence
    let level = "exploration";
    let rule = match prop {
        Prop::C02 => "runs = systematic prefix (every history over {step fp, step 2fp, step 3fp, query, finish} of length <= N+3 on generators of N <= 3 frames) followed by seeded swarm histories over generators of 0..~400 frames interleaved on up to 6 logical tasks; a history is non-trivial if at least one step/finish/query result was compared with the one-shot reference; distinct = distinct hash of the executed op/return trace",
        Prop::C03 => "seeded swarm histories (setters in permuted orders, clones, repeated and interleaved syntheses in 5 input forms, live generators, failing calls) on up to 6 logical tasks; non-trivial = the same (voice set, condition, labels) key was produced at least twice and compared bitwise; distinct = distinct trace hash",
        Prop::C19 => "seeded histories of valid / invalid (wrong length, sum off by >= 1e-6, NaN) weight updates, VoiceSet::new over compatible / single-field-mutated / empty voice lists, syntheses compared with a twin engine that received only the accepted updates; non-trivial = at least one weight update or VoiceSet::new was judged; distinct = distinct trace hash",
        Prop::C20 => "seeded setter histories with adversarial finite arguments on fresh, cloned and long-lived engines; after every op all getters of the touched engine are compared with the reference Condition; non-trivial = the model state changed at least once; distinct = distinct trace hash",
    };
    let cov = J::obj()
        .set("evaluations", J::u(out.evaluations))
        .set("distinct_nontrivial", J::u(out.distinct_nontrivial))
        .set("distinct_histories", J::u(out.distinct_histories))
        .set("rule", J::s(rule))
        .set("samples", J::Arr(out.samples.clone()))
        .set("exhaustive", J::Bool(false))
        .set("systematic_prefix_runs", J::u(out.sys_len))
        .set("logical_steps_executed", J::u(out.stats.ops))
        .set("noop_ops", J::u(out.stats.noop_ops))
        .set("api_calls", J::u(out.stats.api_calls))
        .set("oracle_comparisons", J::u(out.stats.comparisons))
        .set("samples_compared", J::u(out.stats.samples_compared))
        .set("vacuous", J::u(out.stats.vacuous))
        .set("op_kinds", J::from_counts(&out.stats.kinds))
        .set("probes", J::from_counts(&out.stats.probes))
        .set("swarm_profiles", J::from_counts(&out.profiles))
        .set("runs_per_hour", J::u((out.evaluations as f64 / out.wall_s.max(1e-9) * 3600.0) as u64))
        .set("simulated_time", J::s("none: jbonsai reads no clock; progress is counted in logical steps (ops) and deterministic fuel"))
        .set("determinism_pairs_checked", J::u(out.determinism_pairs))
        .set("determinism_mismatches", J::u(out.determinism_mismatches))
        .set("workers", J::u(cfg.workers as u64))
        .set("layer", J::s("W1/L1 logical tasks; ops atomic; every group of runs_per_fork consecutive runs executes in its own fork()ed single-threaded process (nothing the code under test leaves in statics or thread-locals reaches another group); batch sharded over worker processes"))
        .set("runs_per_fork", J::u(cfg.runs_per_fork))
        .set("fresh_process_references", J::u(out.stats.probes.get("fresh_process_reference_checked").copied().unwrap_or(0)))
        .set("real_components", J::s("all of jbonsai (built from /repo working tree with --cfg jbonsai_verif), jlabel, nom, serde, std::fs on tmpfs"))
        .set("simulated_components", J::s("caller tasks and their scheduler, op histories, voice files written to tmpfs, hash seed"))
        .set("stubbed_components", J::s("none"))
        .set("violations_reported", J::Arr(reports))
        .set("known_findings_hit", J::strs(known_hits.iter().cloned()))
        .set("dead_probes", J::strs(dead.iter().cloned()));
    let ev = J::obj()
        .set("property_id", J::s(prop.id()))
        .set("tier", J::s(&tier))
        .set("seed", J::u(seed))
        .set("level", J::s(level))
        .set("coverage", cov)
        .set(
            "assumptions",
            J::strs(
                [
                    "the generated-voice writer emits valid files (checked: every generated voice must load through the public loader before use, else harness error)",
                    "conditions stay inside the operating envelope (C02/C03); configurations whose one-shot reference itself panics are counted as vacuous, not judged",
                    "bit equality identifies all NaNs; +0.0 and -0.0 are identified in clamp results",
                ]
                .iter()
                .map(|s| s.to_string()),
            ),
        )
        .set("wall_s", J::Num((out.wall_s * 1000.0).round() / 1000.0))
        .set("violations", J::u(violations_reported));
    let evp = args.get("evidence", &format!("/verif/evidence/{}.json", prop.id()));
    if let Some(parent) = std::path::Path::new(&evp).parent() {
        let _ = std::fs::create_dir_all(parent);
    }
    if let Err(e) = std::fs::write(&evp, ev.render()) {
        println!("HARNESS-ERROR cannot write evidence {}: {}", evp, e);
        return 2;
    }
    println!(
        "{} {} seed={} runs={} distinct_nontrivial={} ops={} comparisons={} vacuous={} violations={} wall={:.1}s exit={}",
        prop.id(),
        tier,
        seed,
        out.evaluations,
        out.distinct_nontrivial,
        out.stats.ops,
        out.stats.comparisons,
        out.stats.vacuous,
        violations_reported,
        out.wall_s,
        exit
    );
    exit
}

/// debugging aid: execute run <index> of a batch, printing every op with its wall time
fn cmd_run1(args: &Args) -> i32 {
    let Some(prop) = args.pos.get(1).and_then(|s| Prop::from_id(s)) else { return 2 };
    let i: u64 = args.pos.get(2).and_then(|s| s.parse().ok()).unwrap_or(0);
    let seed = seed_from(args);
    let mut env = env::Env::new("run1").unwrap();
    let pools = gen::Pools::new(seed);
    let sys = runner::SysPrefix { hist: gen::systematic_c02_histories(3), variants: 1 };
    let r = runner::run_index(prop, seed, i, &pools, &sys, &mut env);
    println!("swarm {}", r.swarm);
    let mut sim = sim::Sim::new(prop, &mut env);
    for op in &r.ops {
        let t = std::time::Instant::now();
        let res = sim.exec(op);
        println!("{:>8.2}ms {}{}", t.elapsed().as_secs_f64() * 1000.0, op.to_text(), if res.is_err() { "  <-- STOP" } else { "" });
        if res.is_err() {
            break;
        }
    }
    println!("violation: {:?}", r.violation.map(|v| (v.signature(), v.detail)));
    0
}

/// `jbsim digest <replay-file>`: execute the history once (in a forked child of this fresh process) and
/// print the digest of everything observed.
fn cmd_digest(args: &Args) -> i32 {
    let Some(path) = args.pos.get(1) else { return 2 };
    let Ok(text) = std::fs::read_to_string(path) else { return 2 };
    let Ok(f) = ReplayFile::parse(&text) else { return 2 };
    let Some(prop) = Prop::from_id(&f.property) else { return 2 };
    let Ok(ops) = runner::parse_ops(&f.body) else { return 2 };
    let Ok(mut env) = env::Env::new("digest") else { return 2 };
    match runner::digest_of_ops(prop, &ops, &mut env) {
        Ok(d) => {
            println!("DIGEST {}", d);
            0
        }
        Err(e) => {
            println!("HARNESS-ERROR {}", e);
            2
        }
    }
}

/// Re-execute a history `n` times in freshly spawned processes; returns the distinct digests seen.
pub fn reexecute_digests(path: &std::path::Path, n: usize) -> Vec<String> {
    let exe = std::env::current_exe().expect("current_exe");
    let mut seen: Vec<String> = Vec::new();
    for _ in 0..n {
        if let Ok(o) = std::process::Command::new(&exe).arg("digest").arg(path).output() {
            let out = String::from_utf8_lossy(&o.stdout).to_string();
            if let Some(d) = out.lines().find_map(|l| l.strip_prefix("DIGEST ")) {
                if !seen.iter().any(|x| x == d) {
                    seen.push(d.to_string());
                }
            }
        }
    }
    seen
}
