//! Layer L2b of C03: tiny scenarios run under Miri's seeded scheduler
//! (`-Zmiri-many-seeds -Zmiri-preemption-rate`): instruction-level pre-emption, data-race and UB
//! detection, one Miri seed = one repeatable execution. The voice is built through the public
//! struct fields (no file parsing under Miri).

use std::sync::Arc;

use jbonsai::model::voice::model::{Model, ModelParameter};
use jbonsai::model::voice::question::Question;
use jbonsai::model::voice::tree::{Tree, TreeNode};
use jbonsai::model::voice::window::Window;
use jbonsai::model::voice::StreamModels;
use jbonsai::model::{GlobalModelMetadata, MeanVari, StreamModelMetadata, Voice, VoiceSet, Windows};
use jbonsai::{Condition, Engine};

const LABELS: [&str; 2] = [
    "xx^xx-sil+b=o/A:xx+xx+xx/B:xx-xx_xx/C:xx_xx+xx/D:xx+xx_xx/E:xx_xx!xx_xx-xx/F:xx_xx#xx_xx@xx_xx|xx_xx/G:4_4%0_xx_xx/H:xx_xx/I:xx-xx@xx+xx&xx-xx|xx+xx/J:1_4/K:1+1-4",
    "xx^sil-b+o=N/A:-3+1+4/B:xx-xx_xx/C:02_xx+xx/D:xx+xx_xx/E:xx_xx!xx_xx-xx/F:4_4#0_xx@1_1|1_4/G:xx_xx%xx_xx_xx/H:xx_xx/I:1-4@1+1&1-1|1+4/J:xx_xx/K:1+1-4",
];

fn two_leaf_tree(state: usize, pattern: &str) -> Tree {
    Tree {
        state,
        nodes: vec![
            TreeNode::Node { question: Question::parse(&[pattern]).unwrap(), yes: 1, no: 2 },
            TreeNode::Leaf { pdf_index: 1 },
            TreeNode::Leaf { pdf_index: 2 },
        ],
    }
}

fn pdf(means: &[f64], vari: f64, msd: Option<f64>) -> ModelParameter {
    ModelParameter { parameters: means.iter().map(|m| MeanVari(*m, vari)).collect(), msd }
}

fn toy_voice(shift: f64) -> Voice {
    let nstate = 1usize;
    let windows = || Windows::new(vec![Window::new(vec![1.0]), Window::new(vec![-0.5, 0.0, 0.5])]);
    let duration_model = Model::new(vec![two_leaf_tree(2, "*-sil+*")], vec![vec![pdf(&[2.0], 1.0, None), pdf(&[3.0], 1.0, None)]]);
    let mcp = StreamModels::new(
        StreamModelMetadata { vector_length: 3, num_windows: 2, is_msd: false, use_gv: true, option: vec!["ALPHA=0.3".into()] },
        Model::new(
            vec![two_leaf_tree(2, "*-b+*")],
            vec![vec![pdf(&[0.4 + shift, 0.1, -0.05, 0.0, 0.0, 0.0], 0.2, None), pdf(&[0.6 + shift, -0.1, 0.08, 0.0, 0.0, 0.0], 0.2, None)]],
        ),
        Some(Model::new(vec![two_leaf_tree(2, "*-sil+*")], vec![vec![pdf(&[0.02, 0.01, 0.01], 0.005, None), pdf(&[0.03, 0.02, 0.01], 0.005, None)]])),
        windows(),
    );
    let lf0 = StreamModels::new(
        StreamModelMetadata { vector_length: 1, num_windows: 2, is_msd: true, use_gv: true, option: vec![] },
        Model::new(vec![two_leaf_tree(2, "*-sil+*")], vec![vec![pdf(&[4.8, 0.0], 0.1, Some(0.7)), pdf(&[5.0, 0.0], 0.1, Some(0.9))]]),
        Some(Model::new(vec![two_leaf_tree(2, "*-sil+*")], vec![vec![pdf(&[0.01], 0.002, None), pdf(&[0.02], 0.002, None)]])),
        windows(),
    );
    let lpf = StreamModels::new(
        StreamModelMetadata { vector_length: 1, num_windows: 1, is_msd: false, use_gv: false, option: vec![] },
        Model::new(vec![two_leaf_tree(2, "*-sil+*")], vec![vec![pdf(&[1.0], 0.1, None), pdf(&[0.9], 0.1, None)]]),
        None,
        Windows::new(vec![Window::new(vec![1.0])]),
    );
    Voice {
        metadata: GlobalModelMetadata {
            hts_voice_version: "1.0".into(),
            sampling_frequency: 8000,
            frame_period: 3,
            num_states: nstate,
            num_streams: 3,
            stream_type: vec!["MCP".into(), "LF0".into(), "LPF".into()],
            fullcontext_format: "HTS_TTS_JPN".into(),
            fullcontext_version: "1.0".into(),
            gv_off_context: Question::parse(&["*-pau+*"]).unwrap(),
        },
        duration_model,
        stream_models: vec![mcp, lf0, lpf],
    }
}

fn engine(shift: f64) -> Engine {
    let vs = VoiceSet::new(vec![Arc::new(toy_voice(shift))]).unwrap();
    let mut c = Condition::default();
    c.load_model(&vs).unwrap();
    Engine::new(vs, c)
}

fn bits(v: &[f64]) -> Vec<u64> {
    v.iter().map(|x| x.to_bits()).collect()
}

fn snapshot(e: &Engine) -> Vec<u64> {
    let c = &e.condition;
    vec![c.get_sampling_frequency() as u64, c.get_fperiod() as u64, c.get_volume().to_bits(), c.get_speed().to_bits(), c.get_alpha().to_bits(), c.get_beta().to_bits(), c.get_additional_half_tone().to_bits(), c.get_msd_threshold(1).to_bits(), c.get_gv_weight(0).to_bits()]
}

/// A: k threads call synthesize on one shared engine
fn scenario_a() {
    let e = Arc::new(engine(0.0));
    let reference = e.synthesize(&LABELS).unwrap();
    assert!(!reference.is_empty());
    let snap = snapshot(&e);
    let barrier = Arc::new(std::sync::Barrier::new(3));
    let hs: Vec<_> = (0..3)
        .map(|_| {
            let e = e.clone();
            let b = barrier.clone();
            std::thread::spawn(move || {
                b.wait();
                e.synthesize(&LABELS).unwrap()
            })
        })
        .collect();
    for h in hs {
        let w = h.join().unwrap();
        assert_eq!(bits(&w), bits(&reference), "C03: concurrent synthesize on a shared engine differs from the sequential result");
    }
    assert_eq!(snapshot(&e), snap, "C03: a &self call changed the engine's settings");
}

/// B: two threads step their own generators (made from the shared engine) while a third clones,
/// mutates and drops engines
fn scenario_b() {
    let e = Arc::new(engine(0.0));
    let reference = e.synthesize(&LABELS).unwrap();
    let mut hs = Vec::new();
    for _ in 0..2 {
        let e = e.clone();
        hs.push(std::thread::spawn(move || {
            let mut g = e.generator(&LABELS).unwrap();
            let fp = g.fperiod();
            let mut out = Vec::new();
            let mut buf = vec![0.0; fp];
            while g.generate_step(&mut buf) > 0 {
                out.extend_from_slice(&buf);
            }
            out
        }));
    }
    let e2 = e.clone();
    let churn = std::thread::spawn(move || {
        for k in 0..3 {
            let mut c = Engine::clone(&e2);
            c.condition.set_speed(1.0 + k as f64 * 0.5);
            c.condition.set_additional_half_tone(k as f64);
            let w = c.synthesize(&LABELS[..1]).unwrap();
            std::hint::black_box(&w);
            drop(c);
        }
    });
    for h in hs {
        assert_eq!(bits(&h.join().unwrap()), bits(&reference), "C03: stepping a generator next to other activity differs from one-shot synthesis");
    }
    churn.join().unwrap();
}

/// C: a generator created on one thread is moved to another and finished there, while the engine
/// that made it is dropped; two engines over different voices run side by side
fn scenario_c() {
    let e = engine(0.0);
    let reference = e.synthesize(&LABELS).unwrap();
    let other = Arc::new(engine(0.25));
    let other_ref = other.synthesize(&LABELS).unwrap();
    let mut g = e.generator(&LABELS).unwrap();
    let fp = g.fperiod();
    let mut head = vec![0.0; fp];
    assert_eq!(g.generate_step(&mut head), fp);
    drop(e);
    let o2 = other.clone();
    let side = std::thread::spawn(move || o2.synthesize(&LABELS).unwrap());
    let mover = std::thread::spawn(move || {
        let mut out = head;
        let mut buf = vec![0.0; fp];
        while g.generate_step(&mut buf) > 0 {
            out.extend_from_slice(&buf);
        }
        out
    });
    assert_eq!(bits(&mover.join().unwrap()), bits(&reference), "C03: a generator moved across threads differs from one-shot synthesis");
    assert_eq!(bits(&side.join().unwrap()), bits(&other_ref), "C03: synthesis on another engine was disturbed");
}

/// D: two threads synthesize one very short utterance with the postfilter on (beta > 0): the
/// per-frame energy normalisation path (a 576-tap impulse response, expensive under Miri) runs
fn scenario_d() {
    let mut eng = engine(0.0);
    eng.condition.set_beta(0.4);
    eng.condition.set_speed(8.0);
    let e = Arc::new(eng);
    let reference = e.synthesize(&LABELS[..1]).unwrap();
    assert!(!reference.is_empty());
    let barrier = Arc::new(std::sync::Barrier::new(2));
    let hs: Vec<_> = (0..2)
        .map(|_| {
            let e = e.clone();
            let b = barrier.clone();
            std::thread::spawn(move || {
                b.wait();
                e.synthesize(&LABELS[..1]).unwrap()
            })
        })
        .collect();
    for h in hs {
        let w = h.join().unwrap();
        assert_eq!(bits(&w), bits(&reference), "C03: concurrent synthesize (postfilter on) on a shared engine differs from the sequential result");
    }
}

/// E: ten threads synthesize on one shared engine (GV streams): more concurrent callers than any
/// small fixed-size pool inside the library would expect
fn scenario_e() {
    let e = Arc::new(engine(0.0));
    let reference = e.synthesize(&LABELS).unwrap();
    let barrier = Arc::new(std::sync::Barrier::new(10));
    let hs: Vec<_> = (0..10)
        .map(|_| {
            let e = e.clone();
            let b = barrier.clone();
            std::thread::spawn(move || {
                b.wait();
                e.synthesize(&LABELS).unwrap()
            })
        })
        .collect();
    for h in hs {
        let w = h.join().unwrap();
        assert_eq!(bits(&w), bits(&reference), "C03: ten concurrent synthesize calls on a shared engine: one differs from the sequential result");
    }
}

fn hash_wave(w: &[f64]) -> u64 {
    // FNV-1a over the sample bits
    let mut h: u64 = 0xcbf2_9ce4_8422_2325;
    for x in w {
        for b in x.to_bits().to_le_bytes() {
            h ^= b as u64;
            h = h.wrapping_mul(0x0000_0100_0000_01b3);
        }
    }
    h
}

/// R: the sequential reference of scenario F, computed alone in its own process (single thread,
/// nothing warmed up before it). Prints the hash that F is given as its second argument.
fn scenario_r() {
    let e = engine(0.0);
    let w = e.synthesize(&LABELS).unwrap();
    assert!(!w.is_empty());
    println!("refhash {:016x}", hash_wave(&w));
}

/// F: cold start. Three threads make the FIRST calls ever on a freshly built engine: nothing in the
/// voice, the process or the threads has been used before, so lazily initialised tables and caches
/// are filled by racing threads. Afterwards the same engine, a clone and a separately built twin are
/// called sequentially. Everything must agree, and (when given) equal the hash that scenario R
/// computed in another process.
fn scenario_f(expected: Option<u64>) {
    let e = Arc::new(engine(0.0));
    let k: usize = std::env::args().nth(3).and_then(|x| x.parse().ok()).unwrap_or(4);
    // a start barrier releases the callers together (they then drift apart only by pre-emption)
    let barrier = Arc::new(std::sync::Barrier::new(k));
    let hs: Vec<_> = (0..k)
        .map(|_| {
            let e = e.clone();
            let b = barrier.clone();
            std::thread::spawn(move || {
                b.wait();
                e.synthesize(&LABELS).unwrap()
            })
        })
        .collect();
    let outs: Vec<Vec<f64>> = hs.into_iter().map(|h| h.join().unwrap()).collect();
    let again = e.synthesize(&LABELS).unwrap();
    let cloned = Engine::clone(&e).synthesize(&LABELS).unwrap();
    let twin = engine(0.0).synthesize(&LABELS).unwrap();
    for (i, w) in outs.iter().enumerate() {
        assert_eq!(bits(w), bits(&twin), "C03: first concurrent call #{} on a never-used engine differs from a separately built engine over an equal voice", i);
    }
    assert_eq!(bits(&again), bits(&twin), "C03: a call after the concurrent first calls differs from a separately built engine over an equal voice");
    assert_eq!(bits(&cloned), bits(&twin), "C03: a clone used after the concurrent first calls differs from a separately built engine over an equal voice");
    if let Some(x) = expected {
        assert_eq!(hash_wave(&twin), x, "C03: output in a process whose first calls were concurrent differs from the output of a sequential process");
    }
}

/// G: cold start with DIFFERENT utterances per thread: four threads behind a barrier synthesize four
/// different label sequences on one never-used engine (different labels in flight at once: slot
/// collisions in shared caches, take-overs inside another thread's lookup); each result must equal the
/// one a separately built twin engine gives sequentially afterwards.
fn scenario_g() {
    let e = Arc::new(engine(0.0));
    let utts: [Vec<&'static str>; 4] = [vec![LABELS[0]], vec![LABELS[1]], vec![LABELS[0], LABELS[1]], vec![LABELS[1], LABELS[0]]];
    let barrier = Arc::new(std::sync::Barrier::new(4));
    let hs: Vec<_> = utts
        .iter()
        .cloned()
        .map(|u| {
            let e = e.clone();
            let b = barrier.clone();
            std::thread::spawn(move || {
                b.wait();
                let first = e.synthesize(&u[..]).unwrap();
                let second = e.synthesize(&u[..]).unwrap();
                (first, second)
            })
        })
        .collect();
    let outs: Vec<(Vec<f64>, Vec<f64>)> = hs.into_iter().map(|h| h.join().unwrap()).collect();
    let twin = engine(0.0);
    for (i, (u, (first, second))) in utts.iter().zip(outs.iter()).enumerate() {
        let reference = twin.synthesize(&u[..]).unwrap();
        assert_eq!(bits(first), bits(&reference), "C03: thread {}: first concurrent call on a never-used engine differs from a separately built engine", i);
        assert_eq!(bits(second), bits(&reference), "C03: thread {}: repeated call differs from a separately built engine", i);
        let again = e.synthesize(&u[..]).unwrap();
        assert_eq!(bits(&again), bits(&reference), "C03: utterance {}: a call on the shared engine after the concurrent phase differs from a separately built engine", i);
    }
}

fn main() {
    let which = std::env::args().nth(1).unwrap_or_else(|| "A".into());
    match which.as_str() {
        "A" => scenario_a(),
        "B" => scenario_b(),
        "C" => scenario_c(),
        "D" => scenario_d(),
        "E" => scenario_e(),
        "F" => scenario_f(std::env::args().nth(2).and_then(|x| u64::from_str_radix(&x, 16).ok())),
        "R" => scenario_r(),
        "G" => scenario_g(),
        _ => panic!("unknown scenario"),
    }
    println!("scenario {} ok", which);
}
