//! Compile-time part of C03: the types a caller shares or moves across threads keep their
//! auto traits. A compile failure here (E0277 naming Send/Sync/Clone) is reported as the violation.
#![allow(dead_code)]
use std::sync::Arc;

fn send<T: Send>() {}
fn sync<T: Sync>() {}
fn clone<T: Clone>() {}

fn c03_engine_is_send_sync_clone() {
    send::<jbonsai::Engine>();
    sync::<jbonsai::Engine>();
    clone::<jbonsai::Engine>();
    send::<jbonsai::Condition>();
    sync::<jbonsai::Condition>();
    clone::<jbonsai::Condition>();
}
fn c03_generator_is_send() {
    send::<jbonsai::speech::SpeechGenerator>();
}
fn c03_voice_is_shareable() {
    send::<Arc<jbonsai::model::Voice>>();
    sync::<Arc<jbonsai::model::Voice>>();
    send::<jbonsai::model::VoiceSet>();
    sync::<jbonsai::model::VoiceSet>();
}
