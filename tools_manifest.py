#!/usr/bin/env python3
"""Regenerates MANIFEST.json from one place (so it stays valid); run after editing."""
import json, sys
na = {
"C01":"pure function of (labels, voice, condition): its quantifier ranges over inputs and configurations only - no schedule, history, crash point or fault to simulate; deciding it is input fuzzing with a duration oracle",
"C04":"pure function of the file bytes and a label (quantifier: programs, inputs); needs an independent second reader as oracle, i.e. differential testing, not simulation",
"C05":"pure numerical law of MLPG (inputs, configurations); oracle is a dense linear solve; nothing to schedule or fault",
"C06":"pure DSP law of the MLSA filter on a stationary input; oracle is a DFT; no interleaving or fault dimension",
"C07":"pure function of the per-frame F0/LPF sequence (the noise generator is fixed-seed); statistical/DSP oracle only",
"C08":"pure arithmetic law of duration estimation; inputs only",
"C09":"pure function of the time annotations (label text, not a clock the system reads); inputs only",
"C10":"pure arithmetic law of weighted averaging; the history aspect of weights is C19, which is claimed",
"C11":"pure monotonicity/locality law over thresholds; inputs and configurations only",
"C12":"pure statistical law of the GV iteration; inputs and configurations only",
"C13":"pure DSP law of the LSP filter; inputs and configurations only",
"C14":"pure DSP law of the postfilter; inputs and configurations only",
"C15":"pure metamorphic relation between two inputs; no history (one setter, one call)",
"C16":"pure metamorphic relation between two inputs",
"C17":"quantifies over inputs only; corrupt label text is caller-supplied input with no storage/transport seam behind it, so seeded corruption would be plain fuzzing",
}
checks = json.load(open('/verif/manifest_checks.json'))
claimed = {c["property_id"] for c in checks}
pending = {}
for p in ["C02","C03","C18","C19","C20"]:
    if p not in claimed:
        pending[p] = "claimed by design (DESIGN.md section 4); its check is still under construction and will move to checks[] once it runs end to end"
m = {
 "version":1,
 "setup_cmd":"cd /verif && ./setup.sh",
 "hooks":{"guard":"jbonsai_verif","enable":"RUSTFLAGS='--cfg jbonsai_verif' (set by /verif/check and /verif/sim/.cargo/config.toml)","baseline_off_cmd":"cd /repo && cargo nextest run --workspace --no-fail-fast --test-threads 8 --offline || cargo test --workspace --no-fail-fast --offline --lib","source_commits":["930c266","fcea175","f7e0736"],"add_only":True},
 "engines":[{"name":"jbsim","path":"/verif/sim/jbsim","serves_properties":sorted(claimed),"kind_free_text":"deterministic simulator: seeded op histories / schedules / fault sequences against real jbonsai objects with reference models; replay files; ddmin minimiser"}],
 "checks":checks,
 "not_applicable":[{"property_id":k,"reason":v} for k,v in sorted({**na,**pending}.items())],
 "notes":"Technique family: deterministic simulation with fault injection. See DESIGN.md. Exit codes: 0 held, 1 VIOLATION, 2 harness error. Fixed defects and known findings: known_findings.txt."
}
json.dump(m,open('/verif/MANIFEST.json','w'),indent=1)
