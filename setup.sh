#!/bin/bash
# Build everything the checks need, offline, from files on disk only.
set -e
cd "$(dirname "$0")"
export CARGO_NET_OFFLINE=true
export RUSTFLAGS="--cfg jbonsai_verif"
mkdir -p logs evidence/parts replays
( cd sim && cargo build --release --offline --features threads )
( cd sim/static-assert && cargo check --offline )
# warm the Miri build of the L2b scenarios (one seed)
( cd sim/jbsim-miri && MIRIFLAGS="-Zmiri-deterministic-floats -Zmiri-seed=0" cargo +nightly miri run --offline -- A >/dev/null 2>&1 || true )
echo "setup ok"
