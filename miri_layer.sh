#!/bin/bash
# L2b of C03: scenarios of sim/jbsim-miri under Miri's seeded scheduler.
#   miri_layer.sh <base-seed> <nseeds> "<scenarios>" <verif-seed>
# prints VIOLATION lines, writes evidence/parts/C03.l2b.json, exit 0 / 1 / 2
set -u
ROOT=$(cd "$(dirname "$0")" && pwd)
BASE=$1; N=$2; SCEN=$3; VSEED=$4
export CARGO_NET_OFFLINE=true
export RUSTFLAGS="--cfg jbonsai_verif"
FLAGS="-Zmiri-preemption-rate=0.1 -Zmiri-deterministic-floats"
cd "$ROOT/sim/jbsim-miri"
T0=$(date +%s.%N)
rc=0; viol=0; exec_n=0; failures="[]"
NALL=$N
for s in $SCEN; do
  out="$ROOT/logs/miri.$s.out"
  # scenario D (postfilter: a 576-tap impulse response per frame) costs ~4.5 CPU-min per seed under Miri:
  # fewer seeds, higher pre-emption rate
  if [ "$s" = D ]; then N=$(( NALL < 16 ? NALL : 16 )); FLAGS="-Zmiri-preemption-rate=0.25 -Zmiri-deterministic-floats"; else N=$NALL; FLAGS="-Zmiri-preemption-rate=0.1 -Zmiri-deterministic-floats"; fi
  ARG2=""
  if [ "$s" = F ]; then
    # the sequential reference of the cold scenario comes from another process (scenario R, one seed)
    MIRIFLAGS="$FLAGS -Zmiri-seed=$BASE" cargo +nightly miri run --offline -- R >"$out.ref" 2>&1
    ARG2=$(grep -oE "^refhash [0-9a-f]{16}" "$out.ref" | cut -d' ' -f2)
    if [ -z "$ARG2" ]; then
      if grep -qE "error: could not compile|error\[E[0-9]+\]" "$out.ref"; then
        echo "HARNESS-ERROR Miri build of scenario R failed:"; grep -E "^error" -A 6 "$out.ref" | head -20
      else
        echo "HARNESS-ERROR Miri scenario R (sequential reference) did not produce a hash:"; grep -E "error:|panicked at" "$out.ref" | head -4
      fi
      rc=2; continue
    fi
    exec_n=$((exec_n+1))
  fi
  MIRIFLAGS="$FLAGS -Zmiri-many-seeds=$BASE..$((BASE+N))" cargo +nightly miri run --offline -- "$s" $ARG2 >"$out" 2>&1
  code=$?
  ok=$(grep -c "^scenario $s ok" "$out")
  exec_n=$((exec_n+N))
  if [ $code -ne 0 ] || [ "$ok" -lt "$N" ]; then
    if grep -qE "error: could not compile|error\[E[0-9]+\]" "$out" && ! grep -qE "Undefined Behavior|panicked at|Data race" "$out"; then
      echo "HARNESS-ERROR Miri build of scenario $s failed:"; grep -E "^error" -A 6 "$out" | head -20
      rc=2; continue
    fi
    # find a failing seed: many-seeds reports it; otherwise probe seeds one by one (bounded)
    fs=$(grep -oE "failing seed: *[0-9]+|FAILING SEED: *[0-9]+|seed [0-9]+ failed" "$out" | grep -oE "[0-9]+" | head -1)
    if [ -z "$fs" ]; then
      for k in $(seq $BASE $((BASE+N-1))); do
        if ! MIRIFLAGS="$FLAGS -Zmiri-seed=$k" cargo +nightly miri run --offline -- "$s" $ARG2 >"$out.single" 2>&1; then fs=$k; break; fi
      done
    fi
    if [ -z "$fs" ]; then
      echo "HARNESS-ERROR Miri scenario $s failed under many-seeds ($ok of $N ok, exit $code) but no single seed reproduces"; rc=2; continue
    fi
    # confirm the single seed (this is the replay) and classify
    MIRIFLAGS="$FLAGS -Zmiri-seed=$fs" cargo +nightly miri run --offline -- "$s" $ARG2 >"$out.single" 2>&1
    if [ $? -eq 0 ]; then echo "HARNESS-ERROR Miri scenario $s seed $fs does not reproduce alone"; rc=2; continue; fi
    if grep -q "Data race" "$out.single"; then cls="data-race"
    elif grep -q "Undefined Behavior" "$out.single"; then cls="undefined-behavior"
    elif grep -q "C03:" "$out.single"; then cls="waveform-or-settings-differ"
    elif grep -q "deadlock" "$out.single"; then cls="deadlock"
    else cls="panic"; fi
    rp="$ROOT/replays/C03-L2b-$s-$fs.replay"
    {
      echo "jbsim-replay v1"; echo "property C03"; echo "world W1"; echo "layer L2b"
      echo "verif_seed $VSEED"; echo "run $fs"; echo "swarm scenario=$s miri_seed=$fs flags=$FLAGS"
      echo "signature C03.miri|$cls"
      echo "detail $(grep -E "error:|panicked at|C03:" "$out.single" | head -3 | tr '\n' ' ' | cut -c1-400)"
      echo "body 3"; echo "scenario $s"; echo "miri_seed $fs"; echo "arg2 $ARG2"; echo "end"
    } > "$rp"
    echo "VIOLATION property=C03 replay=$rp"
    echo "  signature: C03.miri|$cls (scenario $s, Miri seed $fs)"
    grep -E "error:|panicked at|C03:" "$out.single" | head -4 | sed 's/^/  /'
    viol=$((viol+1)); [ $rc -eq 0 ] && rc=1
    failures=$(python3 -c "import json,sys; f=json.loads(sys.argv[1]); f.append({'scenario':sys.argv[2],'miri_seed':int(sys.argv[3]),'class':sys.argv[4],'replay':sys.argv[5]}); print(json.dumps(f))" "$failures" "$s" "$fs" "$cls" "$rp")
  fi
done
T1=$(date +%s.%N)
python3 - "$ROOT" "$BASE" "$N" "$SCEN" "$exec_n" "$viol" "$failures" "$T0" "$T1" <<'PY'
import json,sys
root,base,n,scen,ex,viol,fails,t0,t1=sys.argv[1],int(sys.argv[2]),int(sys.argv[3]),sys.argv[4].split(),int(sys.argv[5]),int(sys.argv[6]),json.loads(sys.argv[7]),float(sys.argv[8]),float(sys.argv[9])
json.dump({"executions":ex,"miri_seeds":f"{base}..{base+n}","seeds_per_scenario":n,"scenarios":{"A":"3 threads call synthesize on one Arc<Engine>","B":"2 threads step generators made from the shared engine while a 3rd clones, mutates and drops engines","C":"a generator is moved to another thread and finished after its engine was dropped; a second engine runs beside it","D":"2 threads, 1-label utterance, postfilter on (beta 0.4)","E":"10 threads call synthesize on one Arc<Engine> (GV streams)","F":"cold start: 3 threads make the first calls ever on a freshly built engine; then the engine, a clone and a separately built twin sequentially; compared with each other and with the hash of a sequential run in another process (scenario R)"},"scenarios_run":scen,
 "flags":"-Zmiri-many-seeds -Zmiri-preemption-rate=0.1 -Zmiri-deterministic-floats","detects":"data races, UB, and bit-inequality with the sequential reference under instruction-level pre-emption","violations":viol,"failures":fails,"wall_s":round(t1-t0,3)},
 open(root+'/evidence/parts/C03.l2b.json','w'),indent=1)
PY
echo "C03/L2b miri scenarios=[$SCEN] seeds=$BASE..$((BASE+N)) executions=$exec_n violations=$viol exit=$rc"
exit $rc
