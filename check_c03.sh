#!/bin/bash
# C03: static auto-trait assertion, W1/L1 (logical tasks), W1/L2a (real threads under the baton
# scheduler), W1/L2b (Miri's seeded scheduler). Evidence parts are merged into evidence/C03.json.
set -u
cd "$(dirname "$0")"
ROOT=$(pwd)
tier=${1:-quick}; SEED=${2:-20261004}
export CARGO_NET_OFFLINE=true
export RUSTFLAGS="--cfg jbonsai_verif"
mkdir -p logs evidence/parts replays
"$ROOT/tools/clean_shm.sh" 2>/dev/null
rm -f evidence/parts/C03.*.json
T0=$(date +%s.%N)
rc_viol=0; rc_harness=0

# ---- 1. compile-time: Engine: Send+Sync+Clone, SpeechGenerator: Send, Arc<Voice>: Send+Sync
sa_log=logs/C03.static-assert.log
( cd sim/static-assert && cargo check --offline ) >"$sa_log" 2>&1
if [ $? -ne 0 ]; then
  if grep -qE "E0277" "$sa_log" && grep -qE "cannot be (sent|shared) between threads safely|\`(Send|Sync|Clone)\` is not (implemented|satisfied)|the trait \`(Send|Sync|Clone)\`|the trait bound .*: (Send|Sync|Clone)" "$sa_log"; then
    rp=replays/C03-static-assert.replay
    {
      echo "jbsim-replay v1"; echo "property C03"; echo "world W1"; echo "layer static-assert"
      echo "verif_seed $SEED"; echo "run 0"; echo "swarm compile-time"
      echo "signature C03.auto-traits|send-sync-clone-lost"
      echo "detail a type callers share or move across threads lost Send / Sync / Clone (compiler diagnostic below)"
      n=$(grep -cE "" "$sa_log"); echo "body $n"; cat "$sa_log"; echo "end"
    } > "$rp"
    echo "VIOLATION property=C03 replay=$ROOT/$rp"
    grep -E "^error" -A 8 "$sa_log" | head -30
    python3 - "$ROOT" "$tier" "$SEED" <<'PY'
import json,sys
root,tier,seed=sys.argv[1],sys.argv[2],int(sys.argv[3])
json.dump({"property_id":"C03","tier":tier,"seed":seed,"level":"exploration","coverage":{"evaluations":1,"distinct_nontrivial":2,"rule":"compile-time auto-trait assertions (Send/Sync/Clone on Engine, Condition, VoiceSet, Arc<Voice>; Send on SpeechGenerator); the simulation layers were not run because the assertion failed","samples":["static-assert crate: cargo check failed with E0277"],"static_assert":"failed"},"wall_s":0.0,"violations":1},open(root+'/evidence/C03.json','w'),indent=1)
PY
    exit 1
  fi
  echo "HARNESS-ERROR static-assert crate does not build (not an auto-trait error):"; grep -E "^error" -A 6 "$sa_log" | head -30
  exit 2
fi

# ---- 2. build the simulator with the threaded layer
( cd sim && cargo build --release --offline --features threads ) >logs/build.c03.log 2>&1 || { echo "HARNESS-ERROR build failed"; grep -E "^error" -A 8 logs/build.c03.log | head -40; exit 2; }
J=sim/target/release/jbsim

note() { # $1 = exit code of a layer
  if [ "$1" -eq 1 ]; then rc_viol=1; elif [ "$1" -ne 0 ]; then rc_harness=2; fi
}

# ---- 3. L1
$J w1 C03 --tier "$tier" --seed "$SEED" --evidence "$ROOT/evidence/parts/C03.l1.json" --replay-dir "$ROOT/replays" --known "$ROOT/known_findings.txt" 2>logs/C03.$tier.l1.err
note $?

# ---- 4. L2a
$J l2a --tier "$tier" --seed "$SEED" --evidence-part "$ROOT/evidence/parts/C03.l2a.json" --replay-dir "$ROOT/replays" --known "$ROOT/known_findings.txt" 2>logs/C03.$tier.l2a.err
note $?

# ---- 5. L2b (Miri)
if [ "$tier" = thorough ]; then NSEED=${JBSIM_MIRI_SEEDS:-96}; SCEN="A B C E F G D"; else NSEED=${JBSIM_MIRI_SEEDS:-8}; SCEN="F B"; fi
BASE=$(( SEED % 4096 ))
"$ROOT/miri_layer.sh" "$BASE" "$NSEED" "$SCEN" "$SEED" >logs/C03.$tier.l2b.out 2>logs/C03.$tier.l2b.err
rc=$?
cat logs/C03.$tier.l2b.out
note $rc

# ---- 6. merge
T1=$(date +%s.%N)
python3 - "$ROOT" "$tier" "$SEED" "$T0" "$T1" <<'PY'
import json,sys,os
root,tier,seed,t0,t1=sys.argv[1],sys.argv[2],int(sys.argv[3]),float(sys.argv[4]),float(sys.argv[5])
def load(n):
    p=f"{root}/evidence/parts/C03.{n}.json"
    return json.load(open(p)) if os.path.exists(p) else None
l1,l2a,l2b=load('l1'),load('l2a'),load('l2b')
cov={}
viol=0
if l1:
    cov=dict(l1['coverage']); viol+=l1.get('violations',0)
    cov['rule']="L1: "+cov['rule']+" | L2a: "+(l2a or {}).get('rule','(not run)')+" | L2b: Miri seeded scheduler over 3 fixed scenarios on a programmatically built voice"
    cov['l1_evaluations']=cov['evaluations']; cov['l1_distinct_nontrivial']=cov['distinct_nontrivial']
if l2a:
    cov['L2a_real_threads_under_baton']={k:v for k,v in l2a.items() if k not in('samples',)}
    cov['evaluations']=cov.get('evaluations',0)+l2a['evaluations']
    cov['distinct_nontrivial']=cov.get('distinct_nontrivial',0)+l2a['distinct_nontrivial']
    cov.setdefault('samples',[]).extend(l2a.get('samples',[])[:2])
    viol+=l2a.get('violations',0)
if l2b:
    cov['L2b_miri']=l2b
    cov['evaluations']=cov.get('evaluations',0)+l2b.get('executions',0)
    viol+=l2b.get('violations',0)
cov['static_assert']="passed: Engine/Condition/VoiceSet Send+Sync+Clone, SpeechGenerator Send, Arc<Voice> Send+Sync"
cov['layers_run']=[n for n,x in (('L1',l1),('L2a',l2a),('L2b',l2b)) if x]
ev={"property_id":"C03","tier":tier,"seed":seed,"level":"exploration","coverage":cov,
    "assumptions":(l1 or {}).get('assumptions',[])+["L2a: context switches happen only at op boundaries and the guarded hook sites (per sample / per frame / per vector index / per label / between pipeline stages); L2b (Miri) pre-empts at basic-block granularity but only on a toy voice","a mutant that blocks on a lock while another simulated thread holds it would stall the baton scheduler (reported as harness error, not as a verdict)"],
    "wall_s":round(t1-t0,3),"violations":viol}
json.dump(ev,open(root+'/evidence/C03.json','w'),indent=1)
PY
if [ $rc_viol -eq 1 ]; then exit 1; fi
exit $rc_harness
